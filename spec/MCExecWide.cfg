SPECIFICATION Spec
CONSTANT MaxLen1 = 2
CONSTANT MaxLen2 = 1
CONSTANT MaxIsoNodes = 6
CONSTANT PoolN = 26
CONSTANT ClosedOnly = TRUE
CHECK_DEADLOCK FALSE
INVARIANT StrictLazyAgree
INVARIANT OrderIndependent
INVARIANT EdgeSet
INVARIANT Total
INVARIANT DebugNeutral
INVARIANT DebugComplete
INVARIANT Replay
