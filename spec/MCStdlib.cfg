SPECIFICATION Spec
CHECK_DEADLOCK FALSE
INVARIANT ResultWellFormed
INVARIANT OnlyNodeAllocates
INVARIANT EqContract
INVARIANT ArityContract
INVARIANT PlusContract
INVARIANT UnknownFunction
INVARIANT Replay
