---------------------------- MODULE MCChecker ----------------------------
(* Evaluates TSGChecker!Check on every case of CASES and prints the verdict (property C06). *)
EXTENDS TSGChecker, Json, IOUtils

Cases == ndJsonDeserialize(IOEnv.CASES)
VARIABLES ci, phase
vars == <<ci, phase>>
Usable(i) == "matches" \in DOMAIN Cases[i] /\ "skip" \notin DOMAIN Cases[i]
Init == ci \in {i \in 1..Len(Cases) : Usable(i)} /\ phase = "check"
CheckStep == phase = "check" /\ phase' = "done" /\ UNCHANGED ci
Spec == Init /\ [][CheckStep]_vars

C == Cases[ci]
Verdict == Check(C.prog, [i \in 1..Len(C.matches) |-> C.matches[i].caps], C.renull)
WellFormed == phase = "done" => Verdict.ok \/ (Verdict.rule \in {"DuplicateGlobalVariable", "UndefinedSyntaxCapture", "CannotHideGlobalVariable",
   "VariableAlreadyDefined", "CannotSetGlobalVariable", "UndefinedVariable-set", "CannotAssignImmutableVariable", "ExpectedLocalValue",
   "ExpectedListValue", "ExpectedOptionalValue", "NullableRegex", "UndefinedVariable", "UnusedCaptures"} /\ Len(Verdict.loc) = 2)
Out == phase = "done" => PrintT(<<"VERDICT", ToJson([id |-> C.id, ok |-> Verdict.ok,
                                                     rule |-> IF Verdict.ok THEN "" ELSE Verdict.rule,
                                                     loc |-> IF Verdict.ok THEN <<>> ELSE Verdict.loc])>>)
=============================================================================
