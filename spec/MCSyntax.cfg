SPECIFICATION Spec
CONSTANT NRandom = 3
CONSTANT SinglePer = 1
CONSTANT Stride = 3
CONSTANT NSingle = 4
CONSTANT QUOTE <- QuoteC
CONSTANT BACKSLASH <- BackslashC
CONSTANT NL <- NlC
CONSTANT TAB <- TabC
CONSTANT CR <- CrC
CHECK_DEADLOCK FALSE
INVARIANT LocsFunctional
INVARIANT Out
