---------------------------- MODULE MCSession ----------------------------
(***************************************************************************)
(* Design-level model of property C12: several executions of ONE loaded    *)
(* file (an immutable value) on possibly different trees interleave their  *)
(* steps arbitrarily.  Each execution owns its machine state; the file,    *)
(* the tree tables and the supplied globals are constants.  TLC explores   *)
(* every interleaving of two executions and checks that each one ends      *)
(* exactly as its isolated run does (Isolation) and that the step function *)
(* leaves no choice (Determinism).                                         *)
(***************************************************************************)
EXTENDS TSGExec, Json, IOUtils

Cases == ndJsonDeserialize(IOEnv.CASES)
Trees == JsonDeserialize(IOEnv.TREES)

Runnable(i) == "outcome" \in DOMAIN Cases[i] /\ "skip" \notin DOMAIN Cases[i] /\ Cases[i].outcome.status \notin {"load_err", "load_panic"}
TreeOf(i) == Trees[Cases[i].src].nodes

VARIABLES a, b,    \* the two executions' cases (same file text)
          inst     \* <<machine state of a, machine state of b>>
vars == <<a, b, inst>>

CaseOf(k) == IF k = 1 THEN a ELSE b

Init ==
  /\ a \in {i \in 1..Len(Cases) : Runnable(i)}
  /\ b \in {i \in 1..Len(Cases) : Runnable(i) /\ Cases[i].text = Cases[a].text /\ Cases[i].mode = Cases[a].mode}
  /\ inst = <<InitState(Cases[a], EmptyGraph), InitState(Cases[b], EmptyGraph)>>

StepOf(k) ==
  /\ inst[k].status = "run"
  /\ inst' = [inst EXCEPT ![k] = Step(Cases[CaseOf(k)], TreeOf(CaseOf(k)), inst[k])]
  /\ UNCHANGED <<a, b>>

Next == StepOf(1) \/ StepOf(2)
Spec == Init /\ [][Next]_vars

RECURSIVE RunToEnd(_, _, _)
RunToEnd(c, tr, s) == IF s.status # "run" THEN s ELSE RunToEnd(c, tr, Step(c, tr, s))

Outcome(s) == <<s.status, s.err, s.w.g, s.w.np>>
Isolated(i) == Outcome(RunToEnd(Cases[i], TreeOf(i), InitState(Cases[i], EmptyGraph)))

\* every execution ends as its isolated run does, whatever the interleaving
Isolation ==
  \A k \in {1, 2} : inst[k].status # "run" => Outcome(inst[k]) = Isolated(CaseOf(k))
\* an execution's steps never touch the other execution's state
NoCrossTalk == [][\A k \in {1, 2} : (inst'[k] # inst[k]) => inst'[3 - k] = inst[3 - k]]_vars
\* the inputs are never written (they are constants of the model: file, tree, globals)
InputsImmutable == [][a' = a /\ b' = b]_vars
=============================================================================
