---------------------------- MODULE MCExec ----------------------------
(***************************************************************************)
(* Design-level model checking of the two interpreters on a bounded space  *)
(* of programs that TLC enumerates itself (spec -> code direction for      *)
(* C01, C02, C04, C08, C09).                                               *)
(*                                                                         *)
(* A template (TEMPLATE file, prepared by the harness: tree, matches of    *)
(* the stanza queries, merged order) fixes the queries; TLC chooses the    *)
(* bodies: every sequence of at most MaxLen1 (stanza 1) / MaxLen2 (stanza 2) statements from a pool of      *)
(* statements (graph nodes, edges, attributes with equal and conflicting   *)
(* values, scoped definitions and reads through the capture, an `if` and a *)
(* `for`), for stanza 1 and stanza 2.  For each program the strict and the *)
(* lazy machine are run to completion and the properties are checked as    *)
(* invariants on the machines:                                             *)
(*   StrictLazyAgree   (C02)  inside the order-insensitive fragment        *)
(*   OrderIndependent  (C08)  lazy outcome of the program = lazy outcome   *)
(*                            of the program with its stanzas swapped      *)
(*   EdgeSet / SingleAssignment (C09) on every final graph                 *)
(*   DebugNeutral / DebugComplete (C15) debug attributes change nothing    *)
(*                            else                                         *)
(* Graph isomorphism is decided inside TLA+ by searching a permutation of  *)
(* the graph nodes (graphs of at most MaxIsoNodes nodes; larger graphs are *)
(* compared by their signature multisets only).                            *)
(* Every program is printed for replay into the real library.              *)
(***************************************************************************)
EXTENDS TSGExec, TSGStatic, Json, IOUtils

CONSTANTS MaxLen1, MaxLen2, MaxIsoNodes, ClosedOnly, PoolN    \* PoolN: how many pool entries are used (12: core pool, 26: wide pool)

Template == JsonDeserialize(IOEnv.TEMPLATE)     \* a prepared case with two stanzas (queries fixed, bodies ignored)
Trees == JsonDeserialize(IOEnv.TREES)
Tr == Trees[Template.src].nodes
CapName == Template.cap                          \* name of the single-node capture both stanzas have

L0 == <<0, 0>>
V(n) == [k |-> "var", name |-> n, loc |-> L0]
Cap == [k |-> "cap", name |-> CapName, loc |-> L0]
SV(n) == [k |-> "svar", scope |-> Cap, name |-> n, loc |-> L0]
I(n) == [k |-> "int", hi |-> 0, lo |-> n]
Str(s) == [k |-> "str", v |-> s]
CallE(f, args) == [k |-> "call", fn |-> f, args |-> args]
Attr(n, v) == [name |-> n, value |-> v]

Pool == <<
  [k |-> "node", var |-> V("n"), loc |-> L0],
  [k |-> "node", var |-> SV("a"), loc |-> L0],
  [k |-> "edge", src |-> V("n"), dst |-> V("n"), loc |-> L0],
  [k |-> "edge", src |-> V("n"), dst |-> SV("a"), loc |-> L0],
  [k |-> "attrn", node |-> V("n"), attrs |-> <<Attr("k", I(1))>>, loc |-> L0],
  [k |-> "attrn", node |-> SV("a"), attrs |-> <<Attr("k", I(2))>>, loc |-> L0],
  [k |-> "attrn", node |-> SV("a"), attrs |-> <<Attr("t", CallE("source-text", <<Cap>>))>>, loc |-> L0],
  [k |-> "attre", src |-> V("n"), dst |-> SV("a"), attrs |-> <<Attr("w", I(1))>>, loc |-> L0],
  [k |-> "let", var |-> SV("b"), value |-> SV("a"), loc |-> L0],
  [k |-> "attrn", node |-> SV("b"), attrs |-> <<Attr("k", I(1))>>, loc |-> L0],
  [k |-> "if", arms |-> <<[conds |-> <<[k |-> "bool", value |-> CallE("eq", <<CallE("source-text", <<Cap>>), Str("x")>>), loc |-> L0]>>,
                           stmts |-> <<[k |-> "attrn", node |-> CallE("node", <<>>), attrs |-> <<Attr("x", [k |-> "true"])>>, loc |-> L0]>>, loc |-> L0]>>, loc |-> L0],
  [k |-> "for", var |-> [name |-> "y", loc |-> L0], value |-> [k |-> "list", elems |-> <<I(1), I(2)>>],
   stmts |-> <<[k |-> "edge", src |-> CallE("node", <<>>), dst |-> CallE("node", <<>>), loc |-> L0]>>, loc |-> L0],
  \* ---- wide pool (13..26): pairs of features that random programs rarely combine
  [k |-> "let", var |-> SV("c"), value |-> CallE("node", <<>>), loc |-> L0],                                               \* 13 scoped variable holding a call without arguments
  [k |-> "let", var |-> SV("s"), value |-> [k |-> "set", elems |-> <<I(1), I(2)>>], loc |-> L0],                          \* 14 ... holding a set
  [k |-> "attrn", node |-> V("n"), attrs |-> <<Attr("r", CallE("eq", <<[k |-> "set", elems |-> <<I(2), I(1)>>], SV("s")>>))>>, loc |-> L0],   \* 15 read as a later call parameter
  [k |-> "attrn", node |-> V("n"), attrs |-> <<Attr("q", CallE("and", <<[k |-> "true"], CallE("not", <<CallE("is-null", <<SV("c")>>)>>)>>))>>, loc |-> L0],  \* 16
  [k |-> "attrn", node |-> SV("a"), attrs |-> <<Attr("plain", SV("s"))>>, loc |-> L0],                                     \* 17 read on its own
  [k |-> "edge", src |-> SV("a"), dst |-> SV("c"), loc |-> L0],                                                            \* 18
  [k |-> "let", var |-> V("spare"), value |-> CallE("node", <<>>), loc |-> L0],                                            \* 19 unused variable allocating a node
  [k |-> "let", var |-> V("bad"), value |-> CallE("plus", <<I(1), Str("x")>>), loc |-> L0],                                \* 20 unused failing variable
  [k |-> "var", var |-> V("m"), value |-> I(1), loc |-> L0],                                                               \* 21
  [k |-> "set", var |-> V("m"), value |-> CallE("plus", <<V("m"), I(1)>>), loc |-> L0],                                    \* 22 (needs 21)
  [k |-> "attrn", node |-> SV("a"), attrs |-> <<Attr("lc", [k |-> "listc", elem |-> CallE("plus", <<V("y"), I(1)>>), var |-> [name |-> "y", loc |-> L0],
                                                             value |-> [k |-> "list", elems |-> <<I(1), I(2)>>], loc |-> L0])>>, loc |-> L0],   \* 23 comprehension
  [k |-> "scan", value |-> CallE("source-text", <<Cap>>), loc |-> L0,
   arms |-> <<[re |-> "^[a-f]", stmts |-> <<[k |-> "attrn", node |-> CallE("node", <<>>), attrs |-> <<Attr("m0", [k |-> "rcap", i |-> 0])>>, loc |-> L0]>>, loc |-> L0],
              [re |-> "(x)|(y)", stmts |-> <<[k |-> "attrn", node |-> CallE("node", <<>>), attrs |-> <<Attr("g1", [k |-> "rcap", i |-> 1]), Attr("g2", [k |-> "rcap", i |-> 2])>>, loc |-> L0]>>, loc |-> L0]>>],  \* 24
  [k |-> "attrn", node |-> SV("a"), attrs |-> <<Attr("sh", I(2))>>, loc |-> L0],                                           \* 25 attribute shorthand of the template
  [k |-> "print", values |-> <<Str("p"), SV("a"), CallE("source-text", <<Cap>>)>>, loc |-> L0]                              \* 26
>>

\* bodies: sequences of pool indices; a body is closed (uses `n` only after `node n`) - ill-formed ones are skipped
RECURSIVE SeqsUpTo(_, _)
SeqsUpTo(S, n) == IF n = 0 THEN {<<>>} ELSE LET T == SeqsUpTo(S, n - 1) IN T \cup {Append(t, x) : t \in {u \in T : Len(u) = n - 1}, x \in S}
UsesN(i) == i \in {3, 4, 5, 8, 15, 16}
Defines(i) == i \in {1, 19, 20, 21}      \* entries that define a local name: at most once per body
NeedsBefore(b, j, i) == \E m \in 1..(j - 1) : b[m] = i
WellFormed(b) == \A j \in 1..Len(b) : (UsesN(b[j]) => NeedsBefore(b, j, 1)) /\ (b[j] = 22 => NeedsBefore(b, j, 21))
NoRedef(b) == \A i \in {x \in 1..PoolN : Defines(x)} : Cardinality({j \in 1..Len(b) : b[j] = i}) <= 1
Bodies(n) == {b \in SeqsUpTo(1..PoolN, n) : WellFormed(b) /\ NoRedef(b)}

\* scoped names read / defined by the pool entries; a program is closed when every name it reads is defined by one of its statements
ReadsOf(i) == CASE i \in {4, 6, 7, 8, 9, 25, 26} -> {"a"} [] i = 10 -> {"b"} [] i = 16 -> {"c"} [] i = 15 -> {"s"} [] i = 17 -> {"a", "s"} [] i = 18 -> {"a", "c"}
                [] i = 23 -> {"a"} [] OTHER -> {}
DefsOf(i) == CASE i = 2 -> {"a"} [] i = 9 -> {"b"} [] i = 13 -> {"c"} [] i = 14 -> {"s"} [] OTHER -> {}
Closed(x, y) == (UNION {ReadsOf(x[j]) : j \in 1..Len(x)} \cup UNION {ReadsOf(y[j]) : j \in 1..Len(y)})
                  \subseteq (UNION {DefsOf(x[j]) : j \in 1..Len(x)} \cup UNION {DefsOf(y[j]) : j \in 1..Len(y)})

\* every capture of the template must be used (checker): a harmless `let` is appended
UseCap == [k |-> "let", var |-> V("u"), value |-> Cap, loc |-> L0]
BodyStmts(b) == [j \in 1..Len(b) |-> Pool[b[j]]] \o <<UseCap>>

ProgOf(b1, b2) ==
  [Template.prog EXCEPT !.stanzas = <<[Template.prog.stanzas[1] EXCEPT !.stmts = BodyStmts(b1)],
                                      [Template.prog.stanzas[2] EXCEPT !.stmts = BodyStmts(b2)]>>]
CaseOf(b1, b2, mode, swapped) ==
  LET p == ProgOf(b1, b2) IN
  [Template EXCEPT !.mode = mode, !.svnames = <<"a", "b", "c", "s">>,
                   !.prog = IF swapped THEN [p EXCEPT !.stanzas = <<p.stanzas[2], p.stanzas[1]>>] ELSE p,
                   !.matches = IF swapped THEN <<Template.matches[2], Template.matches[1]>> ELSE Template.matches,
                   !.lorder = IF swapped THEN [i \in 1..Len(Template.lorder) |-> <<3 - Template.lorder[i][1], Template.lorder[i][2]>>]
                              ELSE Template.lorder]

RECURSIVE RunToEnd(_, _, _)
RunToEnd(c, tr, s) == IF s.status # "run" THEN s ELSE LET s1 == Step(c, tr, s) IN IF s1.steps > 0 THEN RunToEnd(c, tr, s1) ELSE s
Final(c) == RunToEnd(c, Tr, InitState(c, EmptyGraph))

VARIABLES b1, b2, phase, fs, fl, flw, fsd, fld   \* bodies; finals: strict, lazy, lazy with stanzas swapped, strict/lazy with debug attributes
vars == <<b1, b2, phase, fs, fl, flw, fsd, fld>>

None == [status |-> "none"]
DbgNames == {"dbg_loc", "dbg_var", "dbg_mat"}
WithDbg(c) == [c EXCEPT !.dbg = [on |-> TRUE, loc |-> "dbg_loc", var |-> "dbg_var", mat |-> "dbg_mat"]]
Init == b1 \in Bodies(MaxLen1) /\ b2 \in Bodies(MaxLen2) /\ (ClosedOnly => Closed(b1, b2)) /\ phase = "strict" /\ fs = None /\ fl = None /\ flw = None /\ fsd = None /\ fld = None
RunStrict == phase = "strict" /\ fs' = Final(CaseOf(b1, b2, "strict", FALSE)) /\ phase' = "lazy" /\ UNCHANGED <<b1, b2, fl, flw, fsd, fld>>
RunLazy == phase = "lazy" /\ fl' = Final(CaseOf(b1, b2, "lazy", FALSE)) /\ phase' = "swapped" /\ UNCHANGED <<b1, b2, fs, flw, fsd, fld>>
RunSwapped == phase = "swapped" /\ flw' = Final(CaseOf(b1, b2, "lazy", TRUE)) /\ phase' = "dbg" /\ UNCHANGED <<b1, b2, fs, fl, fsd, fld>>
RunDebug == phase = "dbg" /\ fsd' = Final(WithDbg(CaseOf(b1, b2, "strict", FALSE))) /\ fld' = Final(WithDbg(CaseOf(b1, b2, "lazy", FALSE)))
              /\ phase' = "done" /\ UNCHANGED <<b1, b2, fs, fl, flw>>
Next == RunStrict \/ RunLazy \/ RunSwapped \/ RunDebug
Spec == Init /\ [][Next]_vars

\* ---------------------------------------------------------------- graph isomorphism inside TLA+
RECURSIVE RenameVal(_, _)
RenameVal(v, p) ==
  CASE v.t = "gn" -> VGn(p[v.g + 1])
    [] v.t = "list" -> VList([i \in 1..Len(v.l) |-> RenameVal(v.l[i], p)])
    [] v.t = "set" -> VSet({RenameVal(x, p) : x \in v.e})
    [] OTHER -> v
RenameAttrs(m, p) == [a \in DOMAIN m |-> RenameVal(m[a], p)]
\* description of a graph that does not depend on the order of edges: per node its attributes and its set of (sink, attrs)
Desc(g, p) ==    \* p: 1..n -> 0..n-1 (new index of old node i-1)
  {<<p[i], RenameAttrs(g.na[i], p), {<<p[g.out[i][q].sink + 1], RenameAttrs(g.out[i][q].at, p)>> : q \in 1..Len(g.out[i])}>> : i \in 1..g.n}
Ident(n) == [i \in 1..n |-> i - 1]
Perms(n) == {p \in [1..n -> 0..(n - 1)] : \A i, j \in 1..n : i # j => p[i] # p[j]}
Iso(g, h) ==
  /\ g.n = h.n
  /\ IF g.n <= MaxIsoNodes THEN \E p \in Perms(g.n) : Desc(g, p) = Desc(h, Ident(h.n))
     ELSE Cardinality(UNION {{<<i, q>> : q \in 1..Len(g.out[i])} : i \in 1..g.n}) = Cardinality(UNION {{<<i, q>> : q \in 1..Len(h.out[i])} : i \in 1..h.n})

OrderIndependentKinds == {"ExpectedBoolean", "ExpectedInteger", "ExpectedString", "ExpectedList", "ExpectedGraphNode", "ExpectedSyntaxNode",
                          "DuplicateAttribute", "DuplicateVariable", "FunctionFailed", "InvalidParameters", "UndefinedFunction",
                          "UndefinedRegexCapture", "InvalidVariableScope"}

Done == phase = "done"
\* (C02) inside the fragment strict success implies lazy success with an isomorphic graph; order-independent failure implies failure
StrictLazyAgree ==
  (Done /\ InFragment(ProgOf(b1, b2)) /\ ~fs.w.gntext /\ ~fl.w.gntext) =>
     /\ (fs.status = "ok" => fl.status = "ok" /\ Iso(fs.w.g, fl.w.g))
     /\ (fs.status = "err" /\ fs.err.kind \in OrderIndependentKinds => fl.status = "err")
\* (C08) swapping the stanzas changes neither success nor the graph (up to renumbering)
OrderIndependent ==
  (Done /\ ~fl.w.gntext /\ ~flw.w.gntext) => (fl.status = "ok") = (flw.status = "ok") /\ (fl.status = "ok" => Iso(fl.w.g, flw.w.g))
\* (C09) edges form a set, attribute values are single
EdgeSet ==
  Done => \A f \in {fs, fl, flw} : \A i \in 1..f.w.g.n : \A p \in 1..(Len(f.w.g.out[i]) - 1) : f.w.g.out[i][p].sink < f.w.g.out[i][p + 1].sink
\* (C15) debug attributes are neutral: same success, and without the three attributes the same graph (here even with the same numbering)
StripAttrs(m) == [a \in (DOMAIN m) \ DbgNames |-> m[a]]
StripGraph(g) == [g EXCEPT !.na = [i \in 1..g.n |-> StripAttrs(g.na[i])],
                           !.out = [i \in 1..g.n |-> [q \in 1..Len(g.out[i]) |-> [g.out[i][q] EXCEPT !.at = StripAttrs(@)]]]]
DebugNeutral ==
  Done => /\ fsd.status = fs.status /\ fld.status = fl.status
          /\ (fs.status = "ok" => StripGraph(fsd.w.g) = fs.w.g)
          /\ (fl.status = "ok" => StripGraph(fld.w.g) = fl.w.g)
          /\ (fs.status = "err" => fsd.err.kind = fs.err.kind)
\* with debug attributes every node created by a `node` statement carries the three attributes, every edge a location
DebugComplete ==
  Done /\ fsd.status = "ok" => \A i \in 1..fsd.w.g.n : \A q \in 1..Len(fsd.w.g.out[i]) : "dbg_loc" \in DOMAIN fsd.w.g.out[i][q].at
\* (C01) every run terminates in a proper outcome
Total == Done => \A f \in {fs, fl, flw} : f.status \in {"ok", "err"} /\ f.w.unsup = <<>>
Replay == Done => PrintT(<<"PROG", ToJson([b1 |-> b1, b2 |-> b2, prog |-> ProgOf(b1, b2),
                                            strict |-> fs.status, lazy |-> fl.status, frag |-> InFragment(ProgOf(b1, b2))])>>)
=============================================================================
