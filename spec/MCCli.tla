---------------------------- MODULE MCCli ----------------------------
(***************************************************************************)
(* Property C19: the command-line tool as a straight-line machine over     *)
(* (option set, outcome of loading the DSL file, syntax errors in the      *)
(* source, outcome of execution).  TLC enumerates the whole option space   *)
(* x all scenario classes and prints one row per combination: exit status, *)
(* what goes to stdout, whether a diagnostic is printed, and what is       *)
(* written to the --output file.                                           *)
(***************************************************************************)
EXTENDS Naturals, Sequences, FiniteSets, TLC, Json

\* option space
Flags == [lazy : BOOLEAN, json : BOOLEAN, output : BOOLEAN, quiet : BOOLEAN, allow : BOOLEAN]
GlobalArgs == {"none", "one", "two", "three", "dup", "noeq"}     \* --global arguments: 0-3 well-formed, a duplicate name, one without '='
Scenarios == {"ok", "rejected", "execfail", "syntaxerr", "syntaxerr-execfail"}

VARIABLES opts, globals, scen, stage, exit, stdout, diag, file
vars == <<opts, globals, scen, stage, exit, stdout, diag, file>>

Init ==
  /\ opts \in Flags /\ globals \in GlobalArgs /\ scen \in Scenarios
  /\ stage = "args" /\ exit = 99 /\ stdout = "empty" /\ diag = FALSE /\ file = "none"

Fail(code) == exit' = code /\ diag' = TRUE /\ stage' = "done" /\ UNCHANGED <<stdout, file>>

\* clap: --output requires --json (usage error, status 2)
ParseArgs ==
  /\ stage = "args"
  /\ IF opts.output /\ ~opts.json THEN Fail(2)
     ELSE stage' = "globals" /\ UNCHANGED <<exit, stdout, diag, file>>
ParseGlobals ==
  /\ stage = "globals"
  /\ IF globals \in {"dup", "noeq"} THEN Fail(1)
     ELSE stage' = "load" /\ UNCHANGED <<exit, stdout, diag, file>>
LoadDsl ==
  /\ stage = "load"
  /\ IF scen = "rejected" THEN Fail(1) ELSE stage' = "parse" /\ UNCHANGED <<exit, stdout, diag, file>>
ParseSource ==
  /\ stage = "parse"
  /\ IF scen \in {"syntaxerr", "syntaxerr-execfail"} /\ ~opts.allow THEN Fail(1)
     ELSE stage' = "execute" /\ UNCHANGED <<exit, stdout, diag, file>>
Execute ==
  /\ stage = "execute"
  /\ IF scen \in {"execfail", "syntaxerr-execfail"} THEN Fail(1)
     ELSE stage' = "output" /\ UNCHANGED <<exit, stdout, diag, file>>
Output ==
  /\ stage = "output"
  /\ exit' = 0 /\ diag' = FALSE /\ stage' = "done"
  /\ IF opts.json THEN (IF opts.output THEN file' = "json" /\ stdout' = "empty" ELSE stdout' = "json" /\ file' = "none")
     ELSE file' = "none" /\ stdout' = (IF opts.quiet THEN "empty" ELSE "pretty")

Next == (ParseArgs \/ ParseGlobals \/ LoadDsl \/ ParseSource \/ Execute \/ Output) /\ UNCHANGED <<opts, globals, scen>>
Spec == Init /\ [][Next]_vars /\ WF_vars(Next)

Done == stage = "done"
\* ---- the property, restated over the machine's rows
Succeeds ==
  /\ ~(opts.output /\ ~opts.json) /\ globals \notin {"dup", "noeq"}
  /\ scen \in {"ok"} \cup (IF opts.allow THEN {"syntaxerr"} ELSE {})
ExitZeroIffSuccess == Done => (exit = 0 <=> Succeeds)
GraphOnlyOnSuccess == Done /\ exit # 0 => stdout = "empty" /\ file = "none" /\ diag
QuietOnlySuppressesPretty ==
  Done /\ exit = 0 => /\ (stdout = "pretty" <=> ~opts.json /\ ~opts.quiet)
                      /\ (opts.json => (IF opts.output THEN file = "json" /\ stdout = "empty" ELSE stdout = "json"))
Terminates == <>Done
Row == Done => PrintT(<<"ROW", ToJson([opts |-> opts, globals |-> globals, scen |-> scen, exit |-> exit, stdout |-> stdout, diag |-> diag, file |-> file])>>)
=============================================================================
