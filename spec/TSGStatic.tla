---------------------------- MODULE TSGStatic ----------------------------
(***************************************************************************)
(* Static predicates over DSL files (the interchange AST).                 *)
(*   InFragment(file): the order-insensitive fragment of property C02/C08. *)
(***************************************************************************)
EXTENDS Naturals, Sequences, FiniteSets

RECURSIVE ExprReads(_), ExprSeqReads(_, _), StmtReads(_), StmtsReads(_, _), ArmsReads(_, _), CondsReads(_, _),
          AttrsReads(_, _), ScanArmsReads(_, _), StmtDefs(_), StmtsDefs(_, _), IfArmsDefs(_, _), ScanArmsDefs(_, _)

\* names of scoped variables read somewhere inside expression e
ExprReads(e) ==
  CASE e.k \in {"list", "set"} -> ExprSeqReads(e.elems, 1)
    [] e.k \in {"listc", "setc"} -> ExprReads(e.elem) \cup ExprReads(e.value)
    [] e.k = "svar" -> {e.name} \cup ExprReads(e.scope)
    [] e.k = "call" -> ExprSeqReads(e.args, 1)
    [] OTHER -> {}
ExprSeqReads(es, i) == IF i > Len(es) THEN {} ELSE ExprReads(es[i]) \cup ExprSeqReads(es, i + 1)

\* reads of the target of let/var/set/node: only its scope expression
TargetReads(v) == IF v.k = "svar" THEN ExprReads(v.scope) ELSE {}

AttrsReads(as, i) == IF i > Len(as) THEN {} ELSE ExprReads(as[i].value) \cup AttrsReads(as, i + 1)
CondsReads(cs, i) == IF i > Len(cs) THEN {} ELSE ExprReads(cs[i].value) \cup CondsReads(cs, i + 1)
ArmsReads(arms, i) ==
  IF i > Len(arms) THEN {} ELSE CondsReads(arms[i].conds, 1) \cup StmtsReads(arms[i].stmts, 1) \cup ArmsReads(arms, i + 1)
ScanArmsReads(arms, i) == IF i > Len(arms) THEN {} ELSE StmtsReads(arms[i].stmts, 1) \cup ScanArmsReads(arms, i + 1)

StmtReads(st) ==
  CASE st.k \in {"let", "var", "set"} -> ExprReads(st.value) \cup TargetReads(st.var)
    [] st.k = "node" -> TargetReads(st.var)
    [] st.k = "edge" -> ExprReads(st.src) \cup ExprReads(st.dst)
    [] st.k = "attrn" -> ExprReads(st.node) \cup AttrsReads(st.attrs, 1)
    [] st.k = "attre" -> ExprReads(st.src) \cup ExprReads(st.dst) \cup AttrsReads(st.attrs, 1)
    [] st.k = "print" -> ExprSeqReads(st.values, 1)
    [] st.k = "scan" -> ExprReads(st.value) \cup ScanArmsReads(st.arms, 1)
    [] st.k = "if" -> ArmsReads(st.arms, 1)
    [] st.k = "for" -> ExprReads(st.value) \cup StmtsReads(st.stmts, 1)
StmtsReads(ss, i) == IF i > Len(ss) THEN {} ELSE StmtReads(ss[i]) \cup StmtsReads(ss, i + 1)

\* scoped definitions: records [name, kw, selfread] (selfread: the scope expression reads a scoped variable of the same name)
StmtDefs(st) ==
  CASE st.k \in {"let", "var", "set", "node"} ->
         IF st.var.k = "svar"
         THEN {[name |-> st.var.name, kw |-> st.k, selfread |-> st.var.name \in ExprReads(st.var.scope)]}
         ELSE {}
    [] st.k = "scan" -> ScanArmsDefs(st.arms, 1)
    [] st.k = "if" -> IfArmsDefs(st.arms, 1)
    [] st.k = "for" -> StmtsDefs(st.stmts, 1)
    [] OTHER -> {}
StmtsDefs(ss, i) == IF i > Len(ss) THEN {} ELSE StmtDefs(ss[i]) \cup StmtsDefs(ss, i + 1)
IfArmsDefs(arms, i) == IF i > Len(arms) THEN {} ELSE StmtsDefs(arms[i].stmts, 1) \cup IfArmsDefs(arms, i + 1)
ScanArmsDefs(arms, i) == IF i > Len(arms) THEN {} ELSE StmtsDefs(arms[i].stmts, 1) \cup ScanArmsDefs(arms, i + 1)

ShorthandReads(file) ==
  UNION {AttrsReads(file.shorthands[i].attrs, 1) : i \in 1..Len(file.shorthands)}

\* The order-insensitive fragment (static part):
\*  (1) no `var` / `set` on scoped variables;
\*  (2) for every inherited name, every defining stanza strictly precedes every reading stanza;
\*  (3) the scope expression of a scoped definition does not read a scoped variable of the same name.
InFragment(file) ==
  LET n == Len(file.stanzas)
      defs(i) == StmtsDefs(file.stanzas[i].stmts, 1)
      reads(i) == StmtsReads(file.stanzas[i].stmts, 1) \cup ShorthandReads(file)
      inh == {file.inherit[i] : i \in 1..Len(file.inherit)}
  IN /\ \A i \in 1..n : \A d \in defs(i) : d.kw \in {"let", "node"} /\ ~d.selfread
     /\ \A x \in inh : \A i \in 1..n : \A j \in 1..n :
          ((\E d \in defs(i) : d.name = x) /\ x \in reads(j)) => i < j

=============================================================================
