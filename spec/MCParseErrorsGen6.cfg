SPECIFICATION Spec
CONSTANT Mode = "gen"
CONSTANT MaxNodes = 6
CHECK_DEADLOCK FALSE
INVARIANT WalkEqualsDefinition
INVARIANT ErrorFreeIsEmpty
INVARIANT NoDuplicates
PROPERTY Terminates
