SPECIFICATION Spec
CONSTANT Mode = "real"
CONSTANT MaxNodes = 1
CHECK_DEADLOCK FALSE
INVARIANT WalkEqualsDefinition
INVARIANT ErrorFreeIsEmpty
INVARIANT NoDuplicates
INVARIANT Report
PROPERTY Terminates
