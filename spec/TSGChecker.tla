---------------------------- MODULE TSGChecker ----------------------------
(***************************************************************************)
(* The static rules of the language reference (property C06) as one        *)
(* recursive function over the AST:                                        *)
(*   Check(file, caps, nullable) = [ok |-> TRUE] | [ok |-> FALSE, rule,    *)
(*                                                  loc, name]             *)
(* caps[i]   = capture names and quantifiers of stanza i's query (oracle)  *)
(* nullable  = regex text -> does it match the empty string (regex crate)  *)
(* The traversal order (globals, shorthands, stanzas in order, statements  *)
(* in order, value before variable, unused captures after the block) is    *)
(* part of the specification because only the FIRST broken rule is         *)
(* reported.  Deviations kept from the implementation, by name:            *)
(*   D1 a call is local iff all its arguments are, and is never a list or  *)
(*      optional; a scoped variable is never local                         *)
(*   D2 a loop / comprehension variable inherits locality and quantifier   *)
(*      of the iterated value                                              *)
(*   D4 shorthand bodies are only checked for captures                     *)
(***************************************************************************)
EXTENDS Naturals, Sequences, FiniteSets, TLC

Bad(rule, loc, name) == [ok |-> FALSE, rule |-> rule, loc |-> loc, name |-> name]
Good == [ok |-> TRUE]
EOk(local, q, used) == [ok |-> TRUE, local |-> local, q |-> q, used |-> used]
SOk(fr, used) == [ok |-> TRUE, fr |-> fr, used |-> used]

MapPut(m, k, v) == [x \in (DOMAIN m) \cup {k} |-> IF x = k THEN v ELSE m[x]]
EmptyFrame == [x \in {} |-> 0]

FrameOf(fr, name) ==
  LET S == {i \in 1..Len(fr) : name \in DOMAIN fr[i]} IN
  IF S = {} THEN 0 ELSE CHOOSE i \in S : \A j \in S : j <= i

\* cx = [g |-> globals (name -> [local, q]), caps |-> name -> quantifier, nullable |-> regex -> BOOLEAN]
RECURSIVE CkExpr(_, _, _), CkExprs(_, _, _, _, _, _), CkStmt(_, _, _), CkStmts(_, _, _, _, _), CkArms(_, _, _, _, _),
          CkConds(_, _, _, _, _), CkScanArms(_, _, _, _, _), CkAttrs(_, _, _, _, _), FirstCapture(_), FirstCaptureSeq(_, _)

CkExpr(cx, e, fr) ==
  CASE e.k \in {"null", "true", "false", "int", "str", "rcap"} -> EOk(TRUE, "one", {})
    [] e.k \in {"list", "set"} ->
         LET r == CkExprs(cx, e.elems, 1, fr, TRUE, {}) IN IF ~r.ok THEN r ELSE EOk(r.local, "star", r.used)
    [] e.k \in {"listc", "setc"} ->
         LET rv == CkExpr(cx, e.value, fr) IN
         IF ~rv.ok THEN rv
         ELSE IF ~rv.local THEN Bad("ExpectedLocalValue", e.loc, "")
         ELSE IF rv.q \notin {"star", "plus"} THEN Bad("ExpectedListValue", e.loc, "")
         ELSE IF e.var.name \in DOMAIN cx.g THEN Bad("CannotHideGlobalVariable", e.var.loc, e.var.name)
         ELSE LET fr2 == Append(fr, (e.var.name :> [local |-> rv.local, q |-> rv.q, m |-> FALSE]))
                  re == CkExpr(cx, e.elem, fr2)
              IN IF ~re.ok THEN re ELSE EOk(re.local, "star", rv.used \cup re.used)
    [] e.k = "cap" ->
         IF e.name \notin DOMAIN cx.caps THEN Bad("UndefinedSyntaxCapture", e.loc, e.name)
         ELSE EOk(TRUE, cx.caps[e.name], {e.name})
    [] e.k = "var" ->
         IF e.name \in DOMAIN cx.g THEN EOk(cx.g[e.name].local, cx.g[e.name].q, {})
         ELSE LET i == FrameOf(fr, e.name) IN
              IF i = 0 THEN Bad("UndefinedVariable", e.loc, e.name)
              ELSE EOk(fr[i][e.name].local, fr[i][e.name].q, {})
    [] e.k = "svar" ->
         LET r == CkExpr(cx, e.scope, fr) IN IF ~r.ok THEN r ELSE EOk(FALSE, "one", r.used)
    [] e.k = "call" ->
         LET r == CkExprs(cx, e.args, 1, fr, TRUE, {}) IN IF ~r.ok THEN r ELSE EOk(r.local, "one", r.used)

CkExprs(cx, es, i, fr, local, used) ==
  IF i > Len(es) THEN EOk(local, "one", used)
  ELSE LET r == CkExpr(cx, es[i], fr) IN
       IF ~r.ok THEN r ELSE CkExprs(cx, es, i + 1, fr, local /\ r.local, used \cup r.used)

\* variable.check_add / check_set for the target of let / var / set / node / for
AddVar(cx, var, val, mutable, fr) ==
  IF var.k = "svar" THEN
     LET r == CkExpr(cx, var.scope, fr) IN IF ~r.ok THEN r ELSE SOk(fr, r.used)
  ELSE IF var.name \in DOMAIN cx.g THEN Bad("CannotHideGlobalVariable", var.loc, var.name)
  ELSE IF var.name \in DOMAIN fr[Len(fr)] THEN Bad("VariableAlreadyDefined", var.loc, var.name)
  ELSE SOk([fr EXCEPT ![Len(fr)] = MapPut(@, var.name, [local |-> val.local /\ ~mutable, q |-> val.q, m |-> mutable])], {})

SetVar(cx, var, val, fr) ==
  IF var.k = "svar" THEN
     LET r == CkExpr(cx, var.scope, fr) IN IF ~r.ok THEN r ELSE SOk(fr, r.used)
  ELSE IF var.name \in DOMAIN cx.g THEN Bad("CannotSetGlobalVariable", var.loc, var.name)
  ELSE LET i == FrameOf(fr, var.name) IN
       IF i = 0 THEN Bad("UndefinedVariable-set", var.loc, var.name)
       ELSE IF ~fr[i][var.name].m THEN Bad("CannotAssignImmutableVariable", var.loc, var.name)
       ELSE SOk([fr EXCEPT ![i][var.name] = [local |-> FALSE, q |-> val.q, m |-> TRUE]], {})

CkAttrs(cx, attrs, i, fr, used) ==
  IF i > Len(attrs) THEN SOk(fr, used)
  ELSE LET r == CkExpr(cx, attrs[i].value, fr) IN
       IF ~r.ok THEN r ELSE CkAttrs(cx, attrs, i + 1, fr, used \cup r.used)

CkStmt(cx, st, fr) ==
  CASE st.k \in {"let", "var"} ->
         LET rv == CkExpr(cx, st.value, fr) IN
         IF ~rv.ok THEN rv
         ELSE LET ra == AddVar(cx, st.var, rv, st.k = "var", fr) IN
              IF ~ra.ok THEN ra ELSE SOk(ra.fr, rv.used \cup ra.used)
    [] st.k = "set" ->
         LET rv == CkExpr(cx, st.value, fr) IN
         IF ~rv.ok THEN rv
         ELSE LET ra == SetVar(cx, st.var, rv, fr) IN
              IF ~ra.ok THEN ra ELSE SOk(ra.fr, rv.used \cup ra.used)
    [] st.k = "node" -> AddVar(cx, st.var, [local |-> TRUE, q |-> "one"], FALSE, fr)
    [] st.k = "edge" ->
         LET r == CkExprs(cx, <<st.src, st.dst>>, 1, fr, TRUE, {}) IN IF ~r.ok THEN r ELSE SOk(fr, r.used)
    [] st.k = "attrn" ->
         LET r == CkExpr(cx, st.node, fr) IN
         IF ~r.ok THEN r ELSE CkAttrs(cx, st.attrs, 1, fr, r.used)
    [] st.k = "attre" ->
         LET r == CkExprs(cx, <<st.src, st.dst>>, 1, fr, TRUE, {}) IN
         IF ~r.ok THEN r ELSE CkAttrs(cx, st.attrs, 1, fr, r.used)
    [] st.k = "print" ->
         LET r == CkExprs(cx, st.values, 1, fr, TRUE, {}) IN IF ~r.ok THEN r ELSE SOk(fr, r.used)
    [] st.k = "scan" ->
         LET rv == CkExpr(cx, st.value, fr) IN
         IF ~rv.ok THEN rv
         ELSE IF ~rv.local THEN Bad("ExpectedLocalValue", st.loc, "")
         ELSE LET r == CkScanArms(cx, st.arms, 1, fr, rv.used) IN IF ~r.ok THEN r ELSE SOk(fr, r.used)
    [] st.k = "if" ->
         LET r == CkArms(cx, st.arms, 1, fr, {}) IN IF ~r.ok THEN r ELSE SOk(fr, r.used)
    [] st.k = "for" ->
         LET rv == CkExpr(cx, st.value, fr) IN
         IF ~rv.ok THEN rv
         ELSE IF ~rv.local THEN Bad("ExpectedLocalValue", st.loc, "")
         ELSE IF rv.q \notin {"star", "plus"} THEN Bad("ExpectedListValue", st.loc, "")
         ELSE LET ra == AddVar(cx, [k |-> "var", name |-> st.var.name, loc |-> st.var.loc], rv, FALSE, Append(fr, EmptyFrame)) IN
              IF ~ra.ok THEN ra
              ELSE LET rb == CkStmts(cx, st.stmts, 1, ra.fr, rv.used) IN
                   IF ~rb.ok THEN rb ELSE SOk(fr, rb.used)

\* statements of one block; fr includes the block's own frame as last element
CkStmts(cx, ss, i, fr, used) ==
  IF i > Len(ss) THEN SOk(fr, used)
  ELSE LET r == CkStmt(cx, ss[i], fr) IN
       IF ~r.ok THEN r ELSE CkStmts(cx, ss, i + 1, r.fr, used \cup r.used)

CkConds(cx, cs, i, fr, used) ==
  IF i > Len(cs) THEN SOk(fr, used)
  ELSE LET c == cs[i]  r == CkExpr(cx, c.value, fr) IN
       IF ~r.ok THEN r
       ELSE IF ~r.local THEN Bad("ExpectedLocalValue", c.loc, "")
       ELSE IF c.k \in {"some", "none"} /\ r.q # "opt" THEN Bad("ExpectedOptionalValue", c.loc, "")
       ELSE CkConds(cx, cs, i + 1, fr, used \cup r.used)

CkArms(cx, arms, i, fr, used) ==
  IF i > Len(arms) THEN SOk(fr, used)
  ELSE LET rc == CkConds(cx, arms[i].conds, 1, fr, used) IN
       IF ~rc.ok THEN rc
       ELSE LET rb == CkStmts(cx, arms[i].stmts, 1, Append(fr, EmptyFrame), rc.used) IN
            IF ~rb.ok THEN rb ELSE CkArms(cx, arms, i + 1, fr, rb.used)

CkScanArms(cx, arms, i, fr, used) ==
  IF i > Len(arms) THEN SOk(fr, used)
  ELSE IF cx.nullable[arms[i].re] THEN Bad("NullableRegex", arms[i].loc, arms[i].re)
  ELSE LET rb == CkStmts(cx, arms[i].stmts, 1, Append(fr, EmptyFrame), used) IN
       IF ~rb.ok THEN rb ELSE CkScanArms(cx, arms, i + 1, fr, rb.used)

\* first capture inside an expression (shorthand bodies may not mention captures)
FirstCapture(e) ==
  CASE e.k = "cap" -> <<e>>
    [] e.k \in {"list", "set"} -> FirstCaptureSeq(e.elems, 1)
    [] e.k \in {"listc", "setc"} -> LET a == FirstCapture(e.value) IN IF a # <<>> THEN a ELSE FirstCapture(e.elem)
    [] e.k = "svar" -> FirstCapture(e.scope)
    [] e.k = "call" -> FirstCaptureSeq(e.args, 1)
    [] OTHER -> <<>>
FirstCaptureSeq(es, i) ==
  IF i > Len(es) THEN <<>> ELSE LET a == FirstCapture(es[i]) IN IF a # <<>> THEN a ELSE FirstCaptureSeq(es, i + 1)

RECURSIVE CkGlobals(_, _, _), CkShorthands(_, _, _), CkStanzas(_, _, _, _, _)
CkGlobals(file, i, g) ==
  IF i > Len(file.globals) THEN [ok |-> TRUE, g |-> g]
  ELSE LET d == file.globals[i] IN
       IF d.name \in DOMAIN g THEN Bad("DuplicateGlobalVariable", d.loc, d.name)
       ELSE LET g1 == MapPut(g, d.name, [local |-> TRUE, q |-> d.q]) IN CkGlobals(file, i + 1, g1)

CkShorthands(file, i, j) ==
  IF i > Len(file.shorthands) THEN Good
  ELSE IF j > Len(file.shorthands[i].attrs) THEN CkShorthands(file, i + 1, 1)
  ELSE LET c == FirstCapture(file.shorthands[i].attrs[j].value) IN
       IF c # <<>> THEN Bad("UndefinedSyntaxCapture", c[1].loc, c[1].name) ELSE CkShorthands(file, i, j + 1)

CkStanzas(file, caps, nullable, g, i) ==
  IF i > Len(file.stanzas) THEN Good
  ELSE LET stz == file.stanzas[i]
           cm == [n \in {caps[i][k].name : k \in 1..Len(caps[i])} |->
                    caps[i][CHOOSE k \in 1..Len(caps[i]) : caps[i][k].name = n].q]
           cx == [g |-> g, caps |-> cm, nullable |-> nullable]
           r == CkStmts(cx, stz.stmts, 1, <<EmptyFrame>>, {})
       IN IF ~r.ok THEN r
          ELSE LET unused == {n \in DOMAIN cm : n \notin r.used /\ SubSeq(n, 1, 1) # "_"} IN
               IF unused # {} THEN Bad("UnusedCaptures", stz.loc, "")
               ELSE CkStanzas(file, caps, nullable, g, i + 1)

Check(file, caps, nullable) ==
  LET rg == CkGlobals(file, 1, [x \in {} |-> 0]) IN
  IF ~rg.ok THEN rg
  ELSE LET rs == CkShorthands(file, 1, 1) IN
       IF ~rs.ok THEN rs ELSE CkStanzas(file, caps, nullable, rg.g, 1)
=============================================================================
