SPECIFICATION Spec
CONSTANT MaxArms = 2
CHECK_DEADLOCK FALSE
INVARIANT LoopEqualsDefinition
INVARIANT EmptyMatchIsError
INVARIANT NoEmptyIteration
INVARIANT GroupsBound
INVARIANT Replay
PROPERTY PositionStrictlyIncreases
PROPERTY Terminates
