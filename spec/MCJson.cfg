SPECIFICATION Spec
CHECK_DEADLOCK FALSE
INVARIANT DecodeEncodeIsId
INVARIANT EdgesAscending
INVARIANT IdsInOrder
INVARIANT Out
