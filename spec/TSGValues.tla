---------------------------- MODULE TSGValues ----------------------------
(***************************************************************************)
(* Values of the graph DSL and the standard library (reference/functions). *)
(*                                                                         *)
(* A value is a tagged record; each tag has its own payload field so that  *)
(* TLC never compares payloads of different types:                         *)
(*   [t |-> "null"]            [t |-> "bool", b |-> BOOLEAN]               *)
(*   [t |-> "int", hi, lo]     the DSL's u32 as two 16-bit limbs (TLC ints *)
(*                             are 32-bit signed; limbs keep 2^32-1 exact) *)
(*   [t |-> "str", s |-> STRING]                                           *)
(*   [t |-> "list", l |-> Seq(Value)]   [t |-> "set", e |-> SUBSET Value]  *)
(*   [t |-> "syn", n |-> node]  syntax node = 1-based preorder index       *)
(*   [t |-> "gn", g |-> index]  graph node = 0-based creation index        *)
(***************************************************************************)
EXTENDS Naturals, Integers, Sequences, FiniteSets, TLC

VNull == [t |-> "null"]
VBool(b) == [t |-> "bool", b |-> b]
VInt(hi, lo) == [t |-> "int", hi |-> hi, lo |-> lo]
VSmall(n) == VInt(n \div 65536, n % 65536)       \* n < 2^31
VStr(s) == [t |-> "str", s |-> s]
VList(l) == [t |-> "list", l |-> l]
VSet(e) == [t |-> "set", e |-> e]
VSyn(n) == [t |-> "syn", n |-> n]
VGn(g) == [t |-> "gn", g |-> g]

IsNull(v) == v.t = "null"

\* JSON interchange form -> value (JSON arrays for sets become TLA+ sets)
RECURSIVE FromJ(_)
FromJ(j) ==
  CASE j.t = "list" -> VList([i \in 1..Len(j.l) |-> FromJ(j.l[i])])
    [] j.t = "set"  -> VSet({FromJ(j.e[i]) : i \in 1..Len(j.e)})
    [] OTHER -> j

Range(f) == {f[x] : x \in DOMAIN f}

\* ------------------------------------------------------------------ integers
IntAdd(a, b) ==  \* [ok, v]
  LET lo == a.lo + b.lo
      c  == lo \div 65536
      hi == a.hi + b.hi + c
  IN IF hi >= 65536 THEN [ok |-> FALSE] ELSE [ok |-> TRUE, v |-> VInt(hi, lo % 65536)]

IntLess(a, b) == a.hi < b.hi \/ (a.hi = b.hi /\ a.lo < b.lo)

Digit(d) == SubSeq("0123456789", d + 1, d + 1)

RECURSIVE DecStr(_, _)
DecStr(hi, lo) ==
  IF hi = 0 /\ lo < 10 THEN Digit(lo)
  ELSE LET qh == hi \div 10
           t  == (hi % 10) * 65536 + lo
           ql == t \div 10
       IN DecStr(qh, ql) \o Digit(t % 10)

NatStr(n) == DecStr(n \div 65536, n % 65536)

\* ------------------------------------------------------------------ strings
CharAt(s, i) == SubSeq(s, i, i)

RECURSIVE JoinStrs(_, _, _)
JoinStrs(ss, sep, i) ==
  IF i > Len(ss) THEN ""
  ELSE IF i = Len(ss) THEN ss[i]
  ELSE ss[i] \o sep \o JoinStrs(ss, sep, i + 1)

\* does `pat` occur in `s` at 1-based position i?
MatchAt(s, pat, i) == i + Len(pat) - 1 <= Len(s) /\ SubSeq(s, i, i + Len(pat) - 1) = pat

\* literal replace-all, non-overlapping, left to right (pat # "")
RECURSIVE ReplaceLit(_, _, _, _)
ReplaceLit(s, pat, rep, i) ==
  IF i > Len(s) THEN ""
  ELSE IF MatchAt(s, pat, i) THEN rep \o ReplaceLit(s, pat, rep, i + Len(pat))
  ELSE CharAt(s, i) \o ReplaceLit(s, pat, rep, i + 1)

\* patterns that match the empty string and need no regex engine: "" (at every position), "^" (start), "$" (end), "^$" (empty text)
RECURSIVE Interleave(_, _, _)
Interleave(s, rep, i) == IF i > Len(s) THEN rep ELSE rep \o CharAt(s, i) \o Interleave(s, rep, i + 1)
IsEmptyMatchPattern(p) == p \in {"", "^", "$", "^$"}
ReplaceEmptyMatch(s, pat, rep) ==
  CASE pat = "" -> Interleave(s, rep, 1)
    [] pat = "^" -> rep \o s
    [] pat = "$" -> s \o rep
    [] OTHER -> IF s = "" THEN rep ELSE s

RegexMeta == {"\\", ".", "+", "*", "?", "(", ")", "|", "[", "]", "{", "}", "^", "$", "#", "&", "-", "~"}
IsLiteralPattern(p) == p # "" /\ \A i \in 1..Len(p) : CharAt(p, i) \notin RegexMeta
IsPlainReplacement(r) == \A i \in 1..Len(r) : CharAt(r, i) # "$"

\* ------------------------------------------------------------------ ordering of set elements (for text rendering only)
TypeRank(v) ==
  CASE v.t = "null" -> 0 [] v.t = "bool" -> 1 [] v.t = "int" -> 2 [] v.t = "str" -> 3
    [] v.t = "list" -> 4 [] v.t = "set" -> 5 [] v.t = "syn" -> 6 [] v.t = "gn" -> 7

\* place of a syntax node in the source: start, then end (syntax-node references compare by it before anything else; two different
\* nodes of one place are told apart by kind and node id, which the specification does not order).  tr = <<>>: no tree at hand.
SynKey(n, tr) == <<tr[n].sr, tr[n].sc, tr[n].er, tr[n].ec>>
TupLess(p, q) == \E i \in 1..4 : p[i] < q[i] /\ \A j \in 1..(i - 1) : p[j] = q[j]

\* can the order of two distinct values be decided by the specification?
Decidable(a, b, tr) ==
  \/ TypeRank(a) # TypeRank(b)
  \/ a.t \in {"bool", "int", "gn", "null"}
  \/ (a.t = "syn" /\ tr # <<>> /\ SynKey(a.n, tr) # SynKey(b.n, tr))

ValLess(a, b, tr) ==
  IF TypeRank(a) # TypeRank(b) THEN TypeRank(a) < TypeRank(b)
  ELSE CASE a.t = "bool" -> (~a.b /\ b.b)
         [] a.t = "int"  -> IntLess(a, b)
         [] a.t = "gn"   -> a.g < b.g
         [] a.t = "syn"  -> TupLess(SynKey(a.n, tr), SynKey(b.n, tr))
         [] OTHER -> FALSE

SetSortable(S, tr) == \A a, b \in S : a = b \/ Decidable(a, b, tr)

RECURSIVE SortSet(_, _)
SortSet(S, tr) ==
  IF S = {} THEN <<>>
  ELSE LET m == CHOOSE x \in S : \A y \in S : y = x \/ ValLess(x, y, tr)
           rest == S \ {m}
       IN <<m>> \o SortSet(rest, tr)

\* ------------------------------------------------------------------ text of a value: Rust's Display ("{}")
\* tr = node table of the syntax tree (for syntax-node references)
RECURSIVE Display(_, _), DisplaySeq(_, _, _)
Display(v, tr) ==
  CASE v.t = "null" -> "#null"
    [] v.t = "bool" -> IF v.b THEN "#true" ELSE "#false"
    [] v.t = "int"  -> DecStr(v.hi, v.lo)
    [] v.t = "str"  -> v.s
    [] v.t = "list" -> "[" \o DisplaySeq(v.l, tr, 1) \o "]"
    [] v.t = "set"  -> "{" \o DisplaySeq(SortSet(v.e, tr), tr, 1) \o "}"
    [] v.t = "syn"  -> "[syntax node " \o tr[v.n].kind \o " (" \o NatStr(tr[v.n].sr + 1) \o ", " \o NatStr(tr[v.n].sc + 1) \o ")]"
    [] v.t = "gn"   -> "[graph node " \o NatStr(v.g) \o "]"
DisplaySeq(l, tr, i) ==
  IF i > Len(l) THEN ""
  ELSE IF i = Len(l) THEN Display(l[i], tr)
  ELSE Display(l[i], tr) \o ", " \o DisplaySeq(l, tr, i + 1)

\* is the text of v determined by the specification (sets must be sortable, all the way down)?
RECURSIVE Displayable(_, _)
Displayable(v, tr) ==
  CASE v.t = "list" -> \A i \in 1..Len(v.l) : Displayable(v.l[i], tr)
    [] v.t = "set"  -> SetSortable(v.e, tr) /\ \A x \in v.e : Displayable(x, tr)
    [] OTHER -> TRUE

\* does the text of v mention a graph-node number?
RECURSIVE MentionsGn(_)
MentionsGn(v) ==
  CASE v.t = "list" -> \E i \in 1..Len(v.l) : MentionsGn(v.l[i])
    [] v.t = "set"  -> \E x \in v.e : MentionsGn(x)
    [] v.t = "gn"   -> TRUE
    [] OTHER -> FALSE

\* ------------------------------------------------------------------ graphs
\* g = [n |-> number of nodes, na |-> Seq(attr map), out |-> Seq(Seq([sink, at]))]; node i lives at index i+1.
EmptyMap == [x \in {} |-> VNull]
EmptyGraph == [n |-> 0, na |-> <<>>, out |-> <<>>]

AddGraphNode(g) == [n |-> g.n + 1, na |-> Append(g.na, EmptyMap), out |-> Append(g.out, <<>>)]

\* position of sink j in the (ascending) edge list of node i, 0 if absent
EdgePos(g, i, j) ==
  LET es == g.out[i + 1]
      S == {p \in 1..Len(es) : es[p].sink = j}
  IN IF S = {} THEN 0 ELSE CHOOSE p \in S : TRUE

HasEdge(g, i, j) == EdgePos(g, i, j) # 0

\* insert at the sorted position (number of smaller sinks + 1), as a binary-search insert does
AddEdge(g, i, j, at) ==
  IF HasEdge(g, i, j) THEN g
  ELSE LET es == g.out[i + 1]
           k  == Cardinality({p \in 1..Len(es) : es[p].sink < j})
           ne == SubSeq(es, 1, k) \o <<[sink |-> j, at |-> at]>> \o SubSeq(es, k + 1, Len(es))
       IN [g EXCEPT !.out[i + 1] = ne]

EdgeAttrs(g, i, j) == g.out[i + 1][EdgePos(g, i, j)].at
SetEdgeAttrs(g, i, j, at) == [g EXCEPT !.out[i + 1][EdgePos(g, i, j)].at = at]

MapPut(m, k, v) == [x \in (DOMAIN m) \cup {k} |-> IF x = k THEN v ELSE m[x]]

\* ------------------------------------------------------------------ the standard library
\* Call(fn, args, g, tr) = [ok |-> TRUE, v, g] | [ok |-> FALSE, kind] | [ok |-> FALSE, kind |-> "Unsupported"]
\* "Unsupported" means: the specification deliberately does not decide this call (see DESIGN: regex
\* semantics of `replace`, ordering of strings inside sets).
FnOk(v, g) == [ok |-> TRUE, v |-> v, g |-> g]
FnErr(kind) == [ok |-> FALSE, kind |-> kind]

StdlibNames == {"eq", "is-null", "named-child-index", "source-text", "start-row", "start-column",
                "end-row", "end-column", "node-type", "named-child-count", "node", "not", "and", "or",
                "plus", "format", "replace", "concat", "is-empty", "join", "length"}

\* fixed arity with typed first parameter: param()? then type, then finish()
SynFn(args, g, F(_)) ==
  IF Len(args) = 0 THEN FnErr("InvalidParameters")
  ELSE IF args[1].t # "syn" THEN FnErr("ExpectedSyntaxNode")
  ELSE IF Len(args) > 1 THEN FnErr("InvalidParameters")
  ELSE F(args[1].n)

RECURSIVE AndOr(_, _, _, _), PlusAll(_, _, _), ConcatAll(_, _, _), FormatGo(_, _, _, _, _, _)
AndOr(args, i, acc, isAnd) ==
  IF i > Len(args) THEN [ok |-> TRUE, b |-> acc]
  ELSE IF args[i].t # "bool" THEN [ok |-> FALSE]
  ELSE AndOr(args, i + 1, IF isAnd THEN acc /\ args[i].b ELSE acc \/ args[i].b, isAnd)

PlusAll(args, i, acc) ==   \* [ok, v] | [ok |-> FALSE, kind]
  IF i > Len(args) THEN [ok |-> TRUE, v |-> acc]
  ELSE IF args[i].t # "int" THEN [ok |-> FALSE, kind |-> "ExpectedInteger"]
  ELSE LET r == IntAdd(acc, args[i]) IN
       IF ~r.ok THEN [ok |-> FALSE, kind |-> "FunctionFailed"] ELSE PlusAll(args, i + 1, r.v)

ConcatAll(args, i, acc) ==
  IF i > Len(args) THEN [ok |-> TRUE, l |-> acc]
  ELSE IF args[i].t # "list" THEN [ok |-> FALSE]
  ELSE ConcatAll(args, i + 1, acc \o args[i].l)

\* format string walk: f = format, i = position, args/ai = remaining parameters, acc = output so far
FormatGo(f, i, args, ai, acc, tr) ==
  IF i > Len(f) THEN
     IF ai <= Len(args) THEN [ok |-> FALSE, kind |-> "InvalidParameters"] ELSE [ok |-> TRUE, s |-> acc]
  ELSE LET c == CharAt(f, i) IN
    IF c = "{" THEN
       IF i + 1 > Len(f) THEN [ok |-> FALSE, kind |-> "FunctionFailed"]
       ELSE LET d == CharAt(f, i + 1) IN
         IF d = "{" THEN FormatGo(f, i + 2, args, ai, acc \o "{", tr)
         ELSE IF d = "}" THEN
            IF ai > Len(args) THEN [ok |-> FALSE, kind |-> "InvalidParameters"]
            ELSE IF ~Displayable(args[ai], tr) THEN [ok |-> FALSE, kind |-> "Unsupported"]
            ELSE FormatGo(f, i + 2, args, ai + 1, acc \o Display(args[ai], tr), tr)
         ELSE [ok |-> FALSE, kind |-> "FunctionFailed"]
    ELSE IF c = "}" THEN
       IF i + 1 > Len(f) THEN [ok |-> FALSE, kind |-> "FunctionFailed"]
       ELSE IF CharAt(f, i + 1) = "}" THEN FormatGo(f, i + 2, args, ai, acc \o "}", tr)
       ELSE [ok |-> FALSE, kind |-> "FunctionFailed"]
    ELSE FormatGo(f, i + 1, args, ai, acc \o c, tr)

Call(fn, args, g, tr) ==
  CASE fn = "eq" ->
         IF Len(args) < 2 THEN FnErr("InvalidParameters")
         ELSE IF Len(args) > 2 THEN FnErr("InvalidParameters")
         ELSE LET a == args[1]  b == args[2] IN
              IF a.t = "null" THEN FnOk(VBool(b.t = "null"), g)
              ELSE IF b.t = "null" THEN FnOk(VBool(FALSE), g)
              ELSE IF a.t = b.t THEN FnOk(VBool(a = b), g)
              ELSE FnErr("FunctionFailed")
    [] fn = "is-null" ->
         IF Len(args) # 1 THEN FnErr("InvalidParameters") ELSE FnOk(VBool(args[1].t = "null"), g)
    [] fn = "named-child-index" ->
         SynFn(args, g, LAMBDA n : IF tr[n].parent = 0 THEN FnErr("FunctionFailed")
                                   ELSE IF tr[n].nci < 0 THEN FnErr("FunctionFailed")
                                   ELSE FnOk(VSmall(tr[n].nci), g))
    [] fn = "source-text" -> SynFn(args, g, LAMBDA n : FnOk(VStr(tr[n].text), g))
    [] fn = "start-row" -> SynFn(args, g, LAMBDA n : FnOk(VSmall(tr[n].sr), g))
    [] fn = "start-column" -> SynFn(args, g, LAMBDA n : FnOk(VSmall(tr[n].sc), g))
    [] fn = "end-row" -> SynFn(args, g, LAMBDA n : FnOk(VSmall(tr[n].er), g))
    [] fn = "end-column" -> SynFn(args, g, LAMBDA n : FnOk(VSmall(tr[n].ec), g))
    [] fn = "node-type" -> SynFn(args, g, LAMBDA n : FnOk(VStr(tr[n].kind), g))
    [] fn = "named-child-count" -> SynFn(args, g, LAMBDA n : FnOk(VSmall(tr[n].ncc), g))
    [] fn = "node" ->
         IF Len(args) > 0 THEN FnErr("InvalidParameters") ELSE FnOk(VGn(g.n), AddGraphNode(g))
    [] fn = "not" ->
         IF Len(args) = 0 THEN FnErr("InvalidParameters")
         ELSE IF args[1].t # "bool" THEN FnErr("ExpectedBoolean")
         ELSE IF Len(args) > 1 THEN FnErr("InvalidParameters")
         ELSE FnOk(VBool(~args[1].b), g)
    [] fn = "and" -> LET r == AndOr(args, 1, TRUE, TRUE) IN IF r.ok THEN FnOk(VBool(r.b), g) ELSE FnErr("ExpectedBoolean")
    [] fn = "or"  -> LET r == AndOr(args, 1, FALSE, FALSE) IN IF r.ok THEN FnOk(VBool(r.b), g) ELSE FnErr("ExpectedBoolean")
    [] fn = "plus" -> LET r == PlusAll(args, 1, VInt(0, 0)) IN IF r.ok THEN FnOk(r.v, g) ELSE FnErr(r.kind)
    [] fn = "format" ->
         IF Len(args) = 0 THEN FnErr("InvalidParameters")
         ELSE IF args[1].t # "str" THEN FnErr("ExpectedString")
         ELSE LET r == FormatGo(args[1].s, 1, args, 2, "", tr) IN
              IF r.ok THEN FnOk(VStr(r.s), g) ELSE FnErr(r.kind)
    [] fn = "replace" ->
         IF Len(args) = 0 THEN FnErr("InvalidParameters")
         ELSE IF args[1].t # "str" THEN FnErr("ExpectedString")
         ELSE IF Len(args) = 1 THEN FnErr("InvalidParameters")
         ELSE IF args[2].t # "str" THEN FnErr("ExpectedString")
         ELSE IF ~IsLiteralPattern(args[2].s) /\ ~IsEmptyMatchPattern(args[2].s) THEN FnErr("Unsupported")
         ELSE IF Len(args) = 2 THEN FnErr("InvalidParameters")
         ELSE IF args[3].t # "str" THEN FnErr("ExpectedString")
         ELSE IF Len(args) > 3 THEN FnErr("InvalidParameters")
         ELSE IF ~IsPlainReplacement(args[3].s) THEN FnErr("Unsupported")
         ELSE IF IsEmptyMatchPattern(args[2].s) THEN FnOk(VStr(ReplaceEmptyMatch(args[1].s, args[2].s, args[3].s)), g)
         ELSE FnOk(VStr(ReplaceLit(args[1].s, args[2].s, args[3].s, 1)), g)
    [] fn = "concat" -> LET r == ConcatAll(args, 1, <<>>) IN IF r.ok THEN FnOk(VList(r.l), g) ELSE FnErr("ExpectedList")
    [] fn = "is-empty" ->
         IF Len(args) = 0 THEN FnErr("InvalidParameters")
         ELSE IF args[1].t # "list" THEN FnErr("ExpectedList")
         ELSE IF Len(args) > 1 THEN FnErr("InvalidParameters")
         ELSE FnOk(VBool(Len(args[1].l) = 0), g)
    [] fn = "length" ->
         IF Len(args) = 0 THEN FnErr("InvalidParameters")
         ELSE IF args[1].t # "list" THEN FnErr("ExpectedList")
         ELSE IF Len(args) > 1 THEN FnErr("InvalidParameters")
         ELSE FnOk(VSmall(Len(args[1].l)), g)
    [] fn = "join" ->
         IF Len(args) = 0 THEN FnErr("InvalidParameters")
         ELSE IF args[1].t # "list" THEN FnErr("ExpectedList")
         ELSE IF Len(args) >= 2 /\ args[2].t # "str" THEN FnErr("ExpectedString")
         ELSE IF Len(args) > 2 THEN FnErr("InvalidParameters")
         ELSE IF ~Displayable(args[1], tr) THEN FnErr("Unsupported")
         ELSE LET sep == IF Len(args) = 2 THEN args[2].s ELSE ""
                  ss == [i \in 1..Len(args[1].l) |-> Display(args[1].l[i], tr)]
              IN FnOk(VStr(JoinStrs(ss, sep, 1)), g)
    [] OTHER -> FnErr("UndefinedFunction")

=============================================================================
