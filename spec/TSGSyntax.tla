---------------------------- MODULE TSGSyntax ----------------------------
(***************************************************************************)
(* The concrete syntax of the graph DSL as a RENDERER with layout          *)
(* nondeterminism (property C07).  The parser is specified by its inverse: *)
(*    for every AST a and every text t in Texts(a):  Parse(t) = a,         *)
(*    and every location recorded in the AST is the zero-based (row,       *)
(*    column in characters) of the construct's first character in t.       *)
(* Items(file) is the token sequence of a file; every token carries the    *)
(* kind of gap that follows it:                                            *)
(*    "must"  at least one layout element (two tokens would merge)         *)
(*    "may1" / "may0"  optional layout (canonical: one space / nothing)    *)
(*    "nl"    statement separator (layout required)                        *)
(*    "fix"   nothing (the token itself ends the line)                     *)
(* and the tag of the construct whose location is the token's position.    *)
(* A layout assigns to every gap an element of the layout pool (space,     *)
(* tab, newline, several spaces, a `;` comment with multi-byte characters  *)
(* ending in a newline, or nothing where allowed).                         *)
(* Loc tags: every `loc` field of the input AST holds a unique integer;    *)
(* Positions(...) maps tags to <<row, column>>.                            *)
(***************************************************************************)
EXTENDS Naturals, Sequences, FiniteSets, TLC

\* special characters are supplied by the pool file (TLA+ string literals cannot hold them reliably)
CONSTANTS QUOTE, BACKSLASH, NL, TAB, CR

CharAt(s, i) == SubSeq(s, i, i)
\* tags = the loc tags of all constructs whose location is the position of this token
Tok(s, g) == <<[s |-> s, g |-> g, tags |-> <<>>]>>
TokT(s, g, tag) == <<[s |-> s, g |-> g, tags |-> <<tag>>]>>
AlsoTag(items, tag) == [items EXCEPT ![1].tags = Append(@, tag)]

\* raw: line breaks and tabs are written as they are (a string literal may span lines; what follows it is then on a later row)
RECURSIVE EscapeFrom(_, _, _)
EscapeFrom(s, i, raw) ==
  IF i > Len(s) THEN ""
  ELSE LET c == CharAt(s, i)
           e == IF c = QUOTE THEN BACKSLASH \o QUOTE
                ELSE IF c = BACKSLASH THEN BACKSLASH \o BACKSLASH
                ELSE IF c \in {NL, TAB} /\ raw THEN c
                ELSE IF c = NL THEN BACKSLASH \o "n"
                ELSE IF c = TAB THEN BACKSLASH \o "t"
                ELSE IF c = CR THEN BACKSLASH \o "r"
                ELSE c
       IN e \o EscapeFrom(s, i + 1, raw)
StringLit(s) == QUOTE \o EscapeFrom(s, 1, FALSE) \o QUOTE
StringLitRaw(s) == QUOTE \o EscapeFrom(s, 1, TRUE) \o QUOTE

Digit(d) == SubSeq("0123456789", d + 1, d + 1)
RECURSIVE DecStr(_, _)
DecStr(hi, lo) ==
  IF hi = 0 /\ lo < 10 THEN Digit(lo)
  ELSE LET t == (hi % 10) * 65536 + lo  qh == hi \div 10  ql == t \div 10 IN DecStr(qh, ql) \o Digit(t % 10)
NatStr(n) == DecStr(n \div 65536, n % 65536)

IdentChars == {CharAt("abcdefghijklmnopqrstuvwxyzABCDEFGHIJKLMNOPQRSTUVWXYZ0123456789_-", i) : i \in 1..64}
\* identifiers may contain `-`: an identifier-like token must not touch a following `->`
EndsIdentLike(items) ==
  LET s == items[Len(items)].s  c == CharAt(s, Len(s)) IN c \in IdentChars \/ c \notin {")", "]", "}", QUOTE}
\* replaces the gap after the last item
WithGap(items, g) == [items EXCEPT ![Len(items)].g = g]

RECURSIVE RExpr(_), RExprList(_, _, _), RArgs(_, _), RStmt(_), RBlock(_), RStmts(_, _), RAttrs(_, _), RConds(_, _), RIfArms(_, _, _), RScanArms(_, _, _), RPrintVals(_, _)

\* an expression; the gap after its last token is "may0" (the caller overrides it)
RExpr(e) ==
  CASE e.k = "null" -> Tok("#null", "may0")
    [] e.k = "true" -> Tok("#true", "may0")
    [] e.k = "false" -> Tok("#false", "may0")
    [] e.k = "int" -> Tok(DecStr(e.hi, e.lo), "may0")
    [] e.k = "str" -> Tok(IF e.raw THEN StringLitRaw(e.v) ELSE StringLit(e.v), "may0")
    [] e.k \in {"list", "set"} ->
         LET o == IF e.k = "list" THEN "[" ELSE "{"  c == IF e.k = "list" THEN "]" ELSE "}" IN
         Tok(o, "may0") \o RExprList(e.elems, 1, e.trail) \o Tok(c, "may0")
    [] e.k \in {"listc", "setc"} ->
         LET o == IF e.k = "listc" THEN "[" ELSE "{"  c == IF e.k = "listc" THEN "]" ELSE "}" IN
         TokT(o, "may1", e.loc) \o WithGap(RExpr(e.elem), "must") \o Tok("for", "must") \o TokT(e.var.name, "must", e.var.loc)
           \o Tok("in", "must") \o WithGap(RExpr(e.value), "may1") \o Tok(c, "may0")
    [] e.k = "cap" -> TokT("@" \o e.name, "may0", e.loc)
    [] e.k = "var" -> TokT(e.name, "may0", e.loc)
    [] e.k = "svar" -> WithGap(RExpr(e.scope), "may0") \o Tok(".", "may0") \o TokT(e.name, "may0", e.loc)
    [] e.k = "call" -> Tok("(", "may0") \o Tok(e.fn, IF Len(e.args) = 0 THEN "may0" ELSE "must") \o RArgs(e.args, 1) \o Tok(")", "may0")
    [] e.k = "rcap" -> Tok("$" \o NatStr(e.i), "may0")

\* elements of a list / set literal: "e1, e2, e3" (+ optional trailing comma when trail is TRUE and there are >= 2 elements)
RExprList(es, i, trail) ==
  IF i > Len(es) THEN <<>>
  ELSE WithGap(RExpr(es[i]), "may0")
       \o (IF i < Len(es) THEN Tok(",", "may1") ELSE IF trail THEN Tok(",", "may0") ELSE <<>>)
       \o RExprList(es, i + 1, trail)

RArgs(args, i) ==
  IF i > Len(args) THEN <<>>
  ELSE WithGap(RExpr(args[i]), IF i < Len(args) THEN "must" ELSE "may0") \o RArgs(args, i + 1)

RAttrs(as, i) ==
  IF i > Len(as) THEN <<>>
  ELSE LET a == as[i]
           bare == a.value.k = "true" /\ "bare" \in DOMAIN a /\ a.bare
           one == IF bare THEN Tok(a.name, "may0")
                  ELSE Tok(a.name, "may1") \o Tok("=", "may1") \o WithGap(RExpr(a.value), "may0")
       IN one \o (IF i < Len(as) THEN Tok(",", "may1") ELSE <<>>) \o RAttrs(as, i + 1)

RPrintVals(vs, i) ==
  IF i > Len(vs) THEN <<>>
  ELSE WithGap(RExpr(vs[i]), "may0") \o (IF i < Len(vs) THEN Tok(",", "may1") ELSE <<>>) \o RPrintVals(vs, i + 1)

RConds(cs, i) ==
  IF i > Len(cs) THEN <<>>
  ELSE LET c == cs[i]
           e == WithGap(RExpr(c.value), "may0")
           one == IF c.k \in {"some", "none"} THEN TokT(c.k, "must", c.loc) \o e ELSE AlsoTag(e, c.loc)
       IN one \o (IF i < Len(cs) THEN Tok(",", "may1") ELSE <<>>) \o RConds(cs, i + 1)

\* { stmt ... } ; the gap after "{" and after every statement is "nl"
RBlock(stmts) == Tok("{", "nl") \o RStmts(stmts, 1) \o Tok("}", "may0")
RStmts(ss, i) == IF i > Len(ss) THEN <<>> ELSE WithGap(RStmt(ss[i]), "nl") \o RStmts(ss, i + 1)

RIfArms(arms, i, stloc) ==
  IF i > Len(arms) THEN <<>>
  ELSE LET a == arms[i]
           head == IF i = 1 THEN AlsoTag(TokT("if", "must", stloc), a.loc)
                   ELSE IF Len(a.conds) > 0 THEN TokT("elif", "must", a.loc)
                   ELSE TokT("else", "may1", a.loc)
           conds == IF Len(a.conds) > 0 THEN WithGap(RConds(a.conds, 1), "may1") ELSE <<>>
       IN head \o conds \o WithGap(RBlock(a.stmts), IF i < Len(arms) THEN "may1" ELSE "may0") \o RIfArms(arms, i + 1, stloc)

RScanArms(arms, i, dummy) ==
  IF i > Len(arms) THEN <<>>
  ELSE Tok(StringLit(arms[i].re), "may1") \o WithGap(RBlock(arms[i].stmts), "nl") \o RScanArms(arms, i + 1, dummy)

RStmt(st) ==
  CASE st.k \in {"let", "var", "set"} ->
         TokT(st.k, "must", st.loc) \o WithGap(RExpr(st.var), "may1") \o Tok("=", "may1") \o RExpr(st.value)
    [] st.k = "node" -> TokT("node", "must", st.loc) \o RExpr(st.var)
    [] st.k = "edge" ->
         LET a == RExpr(st.src) IN
         TokT("edge", "must", st.loc) \o WithGap(a, IF EndsIdentLike(a) THEN "must" ELSE "may1") \o Tok("->", "may1") \o RExpr(st.dst)
    [] st.k = "attrn" ->
         TokT("attr", "may1", st.loc) \o Tok("(", "may0") \o WithGap(RExpr(st.node), "may0") \o Tok(")", "may1") \o RAttrs(st.attrs, 1)
    [] st.k = "attre" ->
         LET a == RExpr(st.src) IN
         TokT("attr", "may1", st.loc) \o Tok("(", "may0") \o WithGap(a, IF EndsIdentLike(a) THEN "must" ELSE "may1")
           \o Tok("->", "may1") \o WithGap(RExpr(st.dst), "may0") \o Tok(")", "may1") \o RAttrs(st.attrs, 1)
    [] st.k = "print" -> TokT("print", "must", st.loc) \o RPrintVals(st.values, 1)
    [] st.k = "scan" ->
         [TokT("scan", "must", st.loc) EXCEPT ![1].tags = @ \o [j \in 1..Len(st.arms) |-> st.arms[j].loc]] \o WithGap(RExpr(st.value), "may1") \o Tok("{", "nl") \o RScanArms(st.arms, 1, 0) \o Tok("}", "may0")
    [] st.k = "if" -> RIfArms(st.arms, 1, st.loc)
    [] st.k = "for" ->
         TokT("for", "must", st.loc) \o TokT(st.var.name, "must", st.var.loc) \o Tok("in", "must")
           \o WithGap(RExpr(st.value), "may1") \o RBlock(st.stmts)

RECURSIVE RGlobals(_, _), RInherit(_, _), RShorthands(_, _), RStanzas(_, _)
RGlobals(gs, i) ==
  IF i > Len(gs) THEN <<>>
  ELSE LET g == gs[i]
           q == CASE g.q = "opt" -> "?" [] g.q = "star" -> "*" [] g.q = "plus" -> "+" [] OTHER -> ""
       IN Tok("global", "must")
          \o (IF g.has_default
              THEN TokT(g.name \o q, "must", g.loc) \o Tok("=", "may1") \o Tok(StringLit(g.default), "fix")
              ELSE TokT(g.name \o q, "fix", g.loc))
          \o Tok(NL, "fix") \o RGlobals(gs, i + 1)
RInherit(ns, i) ==
  IF i > Len(ns) THEN <<>> ELSE Tok("inherit", "may1") \o Tok(".", "fix") \o Tok(ns[i], "fix") \o Tok(NL, "fix") \o RInherit(ns, i + 1)
RShorthands(ss, i) ==
  IF i > Len(ss) THEN <<>>
  ELSE LET s == ss[i] IN
       Tok("attribute", "must") \o TokT(s.name, "may1", s.loc) \o Tok("=", "may1") \o TokT(s.var.name, "may1", s.var.loc)
         \o Tok("=>", "may1") \o WithGap(RAttrs(s.attrs, 1), "fix") \o Tok(NL, "fix") \o RShorthands(ss, i + 1)
RStanzas(ss, i) ==
  IF i > Len(ss) THEN <<>>
  ELSE TokT(ss[i].qtext, "fix", ss[i].loc) \o WithGap(RBlock(ss[i].stmts), "fix") \o Tok(NL, "fix") \o RStanzas(ss, i + 1)

Items(file) == RGlobals(file.globals, 1) \o RInherit(file.inherit, 1) \o RShorthands(file.shorthands, 1) \o RStanzas(file.stanzas, 1)

\* ---------------------------------------------------------------- layouts
\* pool = [must |-> Seq(STRING), may |-> Seq(STRING)] ; ch[k] = index chosen for the k-th gap (0 = canonical)
GapText(kind, choice, pool) ==
  CASE kind = "fix" -> ""
    [] kind = "must" -> IF choice = 0 THEN " " ELSE pool.must[((choice - 1) % Len(pool.must)) + 1]
    [] kind = "nl"   -> IF choice = 0 THEN NL ELSE pool.must[((choice - 1) % Len(pool.must)) + 1]
    [] kind = "may1" -> IF choice = 0 THEN " " ELSE pool.may[((choice - 1) % Len(pool.may)) + 1]
    [] kind = "may0" -> IF choice = 0 THEN "" ELSE pool.may[((choice - 1) % Len(pool.may)) + 1]

\* position after a string, starting at <<row, col>>
RECURSIVE Advance(_, _, _)
Advance(pos, s, i) ==
  IF i > Len(s) THEN pos
  ELSE LET p1 == IF CharAt(s, i) = NL THEN <<pos[1] + 1, 0>> ELSE <<pos[1], pos[2] + 1>>
       IN IF p1[1] >= 0 THEN Advance(p1, s, i + 1) ELSE pos      \* (the test forces p1: no chain of suspended values)

\* folds the items: [text, pos (current), locs (set of <<tag, row, col>>)], gap counter k
RECURSIVE Layout(_, _, _, _, _, _)
Layout(items, i, k, ch, pool, acc) ==
  IF i > Len(items) THEN acc
  ELSE LET it == items[i]
           locs == acc.locs \cup {<<it.tags[j], acc.pos[1], acc.pos[2]>> : j \in 1..Len(it.tags)}
           isgap == it.g # "fix"
           gap == GapText(it.g, IF isgap THEN ch[k] ELSE 0, pool)
           p1 == Advance(acc.pos, it.s, 1)
           \* bound by LET (evaluated once); an argument expression would be re-evaluated at every use in the callee
           nacc == [text |-> acc.text \o it.s \o gap, pos |-> Advance(p1, gap, 1), locs |-> locs]
       \* the test forces nacc now (strict evaluation per item) instead of leaving a chain of suspended values
       IN IF nacc.pos[1] >= 0 THEN Layout(items, i + 1, IF isgap THEN k + 1 ELSE k, ch, pool, nacc) ELSE acc

NumGaps(items) == Cardinality({i \in 1..Len(items) : items[i].g # "fix"})
Render(items, ch, pool) == Layout(items, 1, 1, ch, pool, [text |-> "", pos |-> <<0, 0>>, locs |-> {}])
=============================================================================
