SPECIFICATION Spec
CONSTANT MaxLen1 = 2
CONSTANT MaxLen2 = 2
CONSTANT MaxIsoNodes = 6
CHECK_DEADLOCK FALSE
INVARIANT StrictLazyAgree
INVARIANT OrderIndependent
INVARIANT EdgeSet
INVARIANT Total
INVARIANT DebugNeutral
INVARIANT DebugComplete
INVARIANT Replay
