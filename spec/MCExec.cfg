SPECIFICATION Spec
CONSTANT MaxLen = 2
CONSTANT MaxIsoNodes = 6
CHECK_DEADLOCK FALSE
INVARIANT StrictLazyAgree
INVARIANT OrderIndependent
INVARIANT EdgeSet
INVARIANT Total
INVARIANT Replay
