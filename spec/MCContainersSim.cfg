SPECIFICATION Spec
CONSTANT MaxNodes = 12
CONSTANT PreNodes = 10
CONSTANT MaxSrc = 2
CONSTANT MaxLen = 200
CHECK_DEADLOCK FALSE
INVARIANT OutSorted
INVARIANT DenseIndices
INVARIANT LookupIffAdded
INVARIANT EdgeCountIsSetSize
INVARIANT ReturnOfAddEdge
INVARIANT Replay
PROPERTY NestedNeverWritesOuter
