SPECIFICATION Spec
CHECK_DEADLOCK FALSE
INVARIANT WellFormed
INVARIANT Out
