SPECIFICATION Spec
CHECK_DEADLOCK FALSE
INVARIANT OutSorted
INVARIANT SinksExist
INVARIANT GraphShape
INVARIANT CancelledIsBare
INVARIANT Bounded
INVARIANT Reported
PROPERTY AttrsStable
PROPERTY TerminalAbsorbing
