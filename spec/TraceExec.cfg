SPECIFICATION Spec
CHECK_DEADLOCK FALSE
INVARIANT OutSorted
INVARIANT SinksExist
INVARIANT GraphShape
INVARIANT CancelledIsBare
INVARIANT NoPollAfterFire
INVARIANT Bounded
INVARIANT NoForceDuringCollect
INVARIANT ExactlyOncePerMatch
INVARIANT ErrorHasContext
INVARIANT BeginOrder
INVARIANT LocalsClearedPerMatch
INVARIANT GlobalsRule
INVARIANT Reported
PROPERTY AttrsStable
PROPERTY HistoryKeepsGraph
PROPERTY TerminalAbsorbing
PROPERTY GlobalsReadOnly
