SPECIFICATION Spec
CHECK_DEADLOCK FALSE
INVARIANT ExitZeroIffSuccess
INVARIANT GraphOnlyOnSuccess
INVARIANT QuietOnlySuppressesPretty
INVARIANT Row
PROPERTY Terminates
