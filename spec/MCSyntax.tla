---------------------------- MODULE MCSyntax ----------------------------
(***************************************************************************)
(* Property C07: for every AST of the pool TLC renders                     *)
(*   - the canonical layout,                                               *)
(*   - every single-gap variation: each gap x each element of the pool,    *)
(*     all other gaps canonical (systematic),                              *)
(*   - NRandom pseudo-random full layouts,                                 *)
(* computes the location of every located construct by folding rows and    *)
(* columns over the rendered characters, and prints text + locations for   *)
(* the real parser.                                                        *)
(***************************************************************************)
EXTENDS TSGSyntax, Json, IOUtils

CONSTANTS NRandom, SinglePer, Stride, NSingle     \* single-gap variations for the first NSingle ASTs of the pool

Asts == ndJsonDeserialize(IOEnv.ASTS)       \* [id, prog] with integer loc tags
PoolFile == JsonDeserialize(IOEnv.POOL)     \* [must, may, quote, backslash, nl, tab, cr]
Pool == [must |-> PoolFile.must, may |-> PoolFile.may]

QuoteC == PoolFile.quote
BackslashC == PoolFile.backslash
NlC == PoolFile.nl
TabC == PoolFile.tab
CrC == PoolFile.cr

VARIABLES ai, variant, phase
vars == <<ai, variant, phase>>

\* constant-level: evaluated once by TLC
AllItems == [i \in 1..Len(Asts) |-> Items(Asts[i].prog)]
ItemsOf(i) == AllItems[i]
AllGaps == [i \in 1..Len(Asts) |-> NumGaps(AllItems[i])]
PoolSize == IF Len(Pool.must) > Len(Pool.may) THEN Len(Pool.must) ELSE Len(Pool.may)
Variants(i) ==
  {<<"canonical", 0, 0>>}
  \cup (IF i <= NSingle THEN {<<"single", g, ((g * 5 + j * 7) % PoolSize) + 1>> : g \in {x \in 1..AllGaps[i] : x % Stride = i % Stride}, j \in 1..SinglePer} ELSE {})
  \cup {<<"random", k, 0>> : k \in 1..NRandom}

Init == ai \in 1..Len(Asts) /\ variant \in Variants(ai) /\ phase = "render"
RenderStep == phase = "render" /\ phase' = "done" /\ UNCHANGED <<ai, variant>>
Spec == Init /\ [][RenderStep]_vars

ChoiceFn(n) ==
  [k \in 1..n |->
     CASE variant[1] = "canonical" -> 0
       [] variant[1] = "single" -> IF k = variant[2] THEN variant[3] ELSE 0
       [] OTHER -> ((variant[2] * 7919 + k * 104729 + (k * k) * 13) % (PoolSize + 2))]

\* (LET-bound: operator arguments are re-evaluated at every use in the callee, LET values are computed once)
Result == LET its == ItemsOf(ai)  chf == ChoiceFn(AllGaps[ai])  pl == Pool IN Render(its, chf, pl)

\* every located construct gets exactly one position
LocsFunctional == \A a, b \in Result.locs : a[1] = b[1] => a = b
Out == phase = "done" =>
  PrintT(<<"TEXT", ToJson([id |-> Asts[ai].id, variant |-> variant, text |-> Result.text,
                           locs |-> Result.locs])>>)
=============================================================================
