SPECIFICATION Spec
CONSTANT MaxNodes = 2
CONSTANT PreNodes = 0
CONSTANT MaxSrc = 2
CONSTANT MaxLen = 4
CHECK_DEADLOCK FALSE
INVARIANT OutSorted
INVARIANT DenseIndices
INVARIANT LookupIffAdded
INVARIANT EdgeCountIsSetSize
INVARIANT ReturnOfAddEdge
INVARIANT Replay
PROPERTY NestedNeverWritesOuter
