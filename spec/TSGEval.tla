---------------------------- MODULE TSGEval ----------------------------
(***************************************************************************)
(* Expression evaluation of the graph DSL: the strict evaluator, the lazy  *)
(* value builder and the forcing of lazy values (thunk store, scoped       *)
(* variable store).  Everything is a function threading a "world" record.  *)
(*                                                                         *)
(* cx  = [c |-> case, tr |-> node table, inh |-> inherited names,          *)
(*        sh |-> shorthands]                       (constant during a run) *)
(* w   = [g, ev, np, ca, cancel, sc, store, ss, q, pd, unsup]              *)
(*        g      graph                                                     *)
(*        ev     events emitted so far in this step (hook events + polls)  *)
(*        np/ca  polls so far / poll at which the cancellation flag fires  *)
(*        sc     strict scoped variables: <<node, name>> -> [v, m]         *)
(*        store  lazy thunks: Seq([st, lz, v, dbg])                        *)
(*        ss     lazy scoped store: name -> [st, pairs, map]               *)
(*        q      deferred statements [edge, attr, print]                   *)
(*        pd     previous debug info per attribute key                     *)
(*        unsup  the specification met something it does not decide       *)
(* env = [fr |-> Seq(frame), caps |-> name -> value, rc |-> Seq(STRING),   *)
(*        inscan |-> BOOLEAN]; frame = name -> [v |-> value, m |-> mutable]*)
(***************************************************************************)
EXTENDS TSGValues

Ok(v, w) == [ok |-> TRUE, v |-> v, w |-> w]
Err(kind, w) == [ok |-> FALSE, e |-> [kind |-> kind, chain |-> <<>>], w |-> w]

\* error contexts (execution/error.rs): Cancelled is never wrapped; a statement context is never
\* wrapped again; an "other" context is wrapped once more.
Wrap(e, ctx) ==
  IF e.kind = "Cancelled" THEN e
  ELSE IF e.chain = <<>> THEN [e EXCEPT !.chain = <<ctx>>]
  ELSE IF e.chain[1].ck = "other" THEN [e EXCEPT !.chain = <<ctx>> \o @]
  ELSE e
WithCtx(r, ctx) == IF r.ok THEN r ELSE [r EXCEPT !.e = Wrap(@, ctx)]
OtherCtx == [ck |-> "other"]
StmtCtx(d) == [ck |-> "stmt", stmts |-> <<d>>]
StmtCtx2(d1, d2) == [ck |-> "stmt", stmts |-> <<d1, d2>>]

Emit(w, ev) == [w EXCEPT !.ev = Append(@, ev)]

\* remembers that a graph-node number was rendered as text (format / join / print): such runs are
\* outside the order-insensitive fragment, because node numbers legitimately differ between modes
NoteText(fn, args, w) ==
  IF fn \in {"format", "join", "print"} /\ \E i \in 1..Len(args) : MentionsGn(args[i])
  THEN [w EXCEPT !.gntext = TRUE] ELSE w

Poll(w, at) ==
  LET np == w.np + 1 IN
  [w EXCEPT !.np = np, !.ev = Append(@, [e |-> "poll", at |-> at]),
            !.cancel = (w.ca > 0 /\ np >= w.ca)]

Globals(cx) == cx.glob     \* name -> value, defaults applied (set by CheckGlobals)

\* ---------------------------------------------------------------- local variables
\* index of the innermost frame defining name, 0 if none
FrameOf(fr, name) ==
  LET S == {i \in 1..Len(fr) : name \in DOMAIN fr[i]} IN
  IF S = {} THEN 0 ELSE CHOOSE i \in S : \A j \in S : j <= i

\* ---------------------------------------------------------------- syntax tree
RECURSIVE NearestDefining(_, _, _)
\* nearest ancestor-or-self of p that is in S (the search for node n starts at p = parent of n), 0 if none
NearestDefining(tr, p, S) ==
  IF p = 0 THEN 0 ELSE IF p \in S THEN p ELSE LET q == tr[p].parent IN NearestDefining(tr, q, S)

\* ================================================================== STRICT
RECURSIVE Eval(_, _, _, _), EvalSeq(_, _, _, _, _, _), EvalComp(_, _, _, _, _, _, _)

ScopedGetStrict(cx, name, r) ==   \* r = result of evaluating the scope
  IF ~r.ok THEN r
  ELSE IF r.v.t # "syn" THEN Err("InvalidVariableScope", r.w)
  ELSE LET n == r.v.n  w == r.w IN
    IF <<n, name>> \in DOMAIN w.sc
    THEN Ok(w.sc[<<n, name>>].v, Emit(w, [e |-> "sget", node |-> n, name |-> name, at |-> n]))
    ELSE IF name \in cx.inh THEN
      LET p == NearestDefining(cx.tr, cx.tr[n].parent, {q \in 1..Len(cx.tr) : <<q, name>> \in DOMAIN w.sc}) IN
      IF p = 0 THEN Err("UndefinedVariable", w)
      ELSE Ok(w.sc[<<p, name>>].v, Emit(w, [e |-> "sget", node |-> -1, name |-> name, at |-> p]))
    ELSE Err("UndefinedVariable", w)

Eval(cx, e, env, w) ==
  CASE e.k = "null"  -> Ok(VNull, w)
    [] e.k = "true"  -> Ok(VBool(TRUE), w)
    [] e.k = "false" -> Ok(VBool(FALSE), w)
    [] e.k = "int"   -> Ok(VInt(e.hi, e.lo), w)
    [] e.k = "str"   -> Ok(VStr(e.v), w)
    [] e.k = "list"  -> LET r == EvalSeq(cx, e.elems, 1, env, w, <<>>) IN
                        IF r.ok THEN Ok(VList(r.v), r.w) ELSE r
    [] e.k = "set"   -> LET r == EvalSeq(cx, e.elems, 1, env, w, <<>>) IN
                        IF r.ok THEN Ok(VSet(Range(r.v)), r.w) ELSE r
    [] e.k \in {"listc", "setc"} ->
         LET rv == Eval(cx, e.value, env, w) IN
         IF ~rv.ok THEN rv
         ELSE IF rv.v.t # "list" THEN Err("ExpectedList", rv.w)
         ELSE LET r == EvalComp(cx, e, rv.v.l, 1, env, rv.w, <<>>) IN
              IF ~r.ok THEN r
              ELSE IF e.k = "listc" THEN Ok(VList(r.v), r.w) ELSE Ok(VSet(Range(r.v)), r.w)
    [] e.k = "cap" -> Ok(env.caps[e.name], w)
    [] e.k = "var" ->
         IF e.name \in DOMAIN Globals(cx) THEN Ok(Globals(cx)[e.name], w)
         ELSE LET i == FrameOf(env.fr, e.name) IN
              IF i = 0 THEN Err("UndefinedVariable", w) ELSE Ok(env.fr[i][e.name].v, w)
    [] e.k = "svar" -> ScopedGetStrict(cx, e.name, Eval(cx, e.scope, env, w))
    [] e.k = "call" ->
         LET r == EvalSeq(cx, e.args, 1, env, w, <<>>) IN
         IF ~r.ok THEN r
         ELSE LET c == Call(e.fn, r.v, r.w.g, cx.tr)
                  rw == NoteText(e.fn, r.v, r.w) IN
              IF c.ok THEN
                 Ok(c.v, IF c.g.n > r.w.g.n
                         THEN Emit([rw EXCEPT !.g = c.g], [e |-> "gnode", id |-> r.w.g.n])
                         ELSE rw)
              ELSE IF c.kind = "Unsupported" THEN Err("Unsupported", [r.w EXCEPT !.unsup = <<[re |-> "", subj |-> ""]>>])
              ELSE Err(c.kind, r.w)
    [] e.k = "rcap" ->
         IF e.i + 1 > Len(env.rc) THEN Err("UndefinedRegexCapture", w) ELSE Ok(VStr(env.rc[e.i + 1]), w)

EvalSeq(cx, es, i, env, w, acc) ==
  IF i > Len(es) THEN Ok(acc, w)
  ELSE LET r == Eval(cx, es[i], env, w) IN
       IF ~r.ok THEN r ELSE EvalSeq(cx, es, i + 1, env, r.w, Append(acc, r.v))

\* comprehension body for items[i..]; the loop variable lives in a fresh frame per element
EvalComp(cx, e, items, i, env, w, acc) ==
  IF i > Len(items) THEN Ok(acc, w)
  ELSE IF e.var.name \in DOMAIN Globals(cx) THEN Err("DuplicateVariable", w)
  ELSE LET env2 == [env EXCEPT !.fr = Append(@, (e.var.name :> [v |-> items[i], m |-> FALSE]))]
           r == Eval(cx, e.elem, env2, w)
       IN IF ~r.ok THEN r ELSE EvalComp(cx, e, items, i + 1, env, r.w, Append(acc, r.v))

\* ================================================================== LAZY
\* lazy values: [lz |-> "val", v] | [lz |-> "list"|"set", elems] | [lz |-> "var", i] |
\*              [lz |-> "scoped", scope, name] | [lz |-> "call", fn, args]
LVal(v) == [lz |-> "val", v |-> v]
LVar(i) == [lz |-> "var", i |-> i]

\* store.add: thunk i (0-based) with its debug info (a statement context record)
StoreAdd(w, lz, dbg) ==
  LET i == Len(w.store) IN
  [w |-> Emit([w EXCEPT !.store = Append(@, [st |-> "unforced", lz |-> lz, v |-> VNull, dbg |-> dbg])],
              [e |-> "thunk", i |-> i]),
   i |-> i]

RECURSIVE Force(_, _, _), ForceSeq(_, _, _, _, _), ForcePairs(_, _, _, _, _, _, _), ForceNoPoll(_, _, _)
RECURSIVE EvalLazy(_, _, _, _, _), EvalLazySeq(_, _, _, _, _, _, _), EvalLazyComp(_, _, _, _, _, _, _, _)

ForceSeq(cx, ls, i, w, acc) ==
  IF i > Len(ls) THEN Ok(acc, w)
  ELSE LET r == Force(cx, ls[i], w) IN
       IF ~r.ok THEN r ELSE ForceSeq(cx, ls, i + 1, r.w, Append(acc, r.v))

\* forcing the pairs of a scoped name: pairs[i..] -> map node -> [lz, dbg]
ForcePairs(cx, name, pairs, i, w, map, dummy) ==
  IF i > Len(pairs) THEN Ok(map, w)
  ELSE LET p == pairs[i]
           r0 == Force(cx, p.scope, w)
           r == IF ~r0.ok THEN r0
                ELSE IF r0.v.t # "syn" THEN Err("ExpectedSyntaxNode", r0.w) ELSE r0
       IN IF ~r.ok THEN WithCtx(WithCtx(r, OtherCtx), StmtCtx(p.dbg))
          ELSE LET n == r.v.n
                   w1 == Emit(r.w, [e |-> "sdef", node |-> n, name |-> name])
               IN IF n \in DOMAIN map
                  THEN WithCtx(Err("DuplicateVariable", w1), StmtCtx2(map[n].dbg, p.dbg))
                  ELSE LET map1 == MapPut(map, n, [lz |-> p.value, dbg |-> p.dbg]) IN
                       ForcePairs(cx, name, pairs, i + 1, w1, map1, dummy)

\* scoped_store.force(name): the per-node map of a scoped name (memoised in w.ss)
ForceScopedName(cx, name, w) ==
  LET cell == w.ss[name] IN
  IF cell.st = "forced" THEN Ok(cell.map, w)
  ELSE IF cell.st = "forcing" THEN Err("RecursivelyDefinedScopedVariable", w)
  ELSE LET w1 == [w EXCEPT !.ss[name].st = "forcing"]
           r == ForcePairs(cx, name, cell.pairs, 1, w1, [x \in {} |-> 0], 0)
       IN IF ~r.ok THEN r
          ELSE Ok(r.v, [r.w EXCEPT !.ss[name] = [st |-> "forced", pairs |-> <<>>, map |-> r.v]])

Force(cx, lv, w) ==
  LET w0 == Poll(w, "evaluating value") IN
  IF w0.cancel THEN Err("Cancelled", w0) ELSE ForceNoPoll(cx, lv, w0)

ForceNoPoll(cx, lv, w0) ==
  CASE lv.lz = "val"  -> Ok(lv.v, w0)
    [] lv.lz = "list" -> LET r == ForceSeq(cx, lv.elems, 1, w0, <<>>) IN IF r.ok THEN Ok(VList(r.v), r.w) ELSE r
    [] lv.lz = "set"  -> LET r == ForceSeq(cx, lv.elems, 1, w0, <<>>) IN IF r.ok THEN Ok(VSet(Range(r.v)), r.w) ELSE r
    [] lv.lz = "var"  ->
         LET w1 == Emit(w0, [e |-> "force", i |-> lv.i])
             th == w1.store[lv.i + 1]
         IN IF th.st = "forced" THEN Ok(th.v, w1)
            ELSE IF th.st = "forcing" THEN WithCtx(Err("RecursivelyDefinedVariable", w1), StmtCtx(th.dbg))
            ELSE LET r == Force(cx, th.lz, [w1 EXCEPT !.store[lv.i + 1].st = "forcing"]) IN
                 IF ~r.ok THEN WithCtx(r, StmtCtx(th.dbg))
                 ELSE Ok(r.v, [r.w EXCEPT !.store[lv.i + 1] = [st |-> "forced", lz |-> LVal(r.v), v |-> r.v, dbg |-> th.dbg]])
    [] lv.lz = "scoped" ->
         LET r0 == Force(cx, lv.scope, w0)
             rs == IF ~r0.ok THEN r0 ELSE IF r0.v.t # "syn" THEN Err("ExpectedSyntaxNode", r0.w) ELSE r0
         IN IF ~rs.ok THEN WithCtx(rs, OtherCtx)
            ELSE LET n == rs.v.n  name == lv.name IN
              IF name \notin DOMAIN rs.w.ss THEN Err("UndefinedScopedVariable", rs.w)
              ELSE LET rm == ForceScopedName(cx, name, rs.w) IN
                IF ~rm.ok THEN rm
                ELSE LET map == rm.v
                         at == IF n \in DOMAIN map THEN n
                               ELSE IF name \in cx.inh
                                    THEN NearestDefining(cx.tr, cx.tr[n].parent, DOMAIN map)
                                    ELSE 0
                         w2 == Emit(rm.w, [e |-> "sget", node |-> n, name |-> name, at |-> IF at = 0 THEN -1 ELSE at])
                     IN IF at = 0 THEN Err("UndefinedScopedVariable", w2)
                        ELSE Force(cx, map[at].lz, w2)
    [] lv.lz = "call" ->
         LET r == ForceSeq(cx, lv.args, 1, w0, <<>>) IN
         IF ~r.ok THEN r
         ELSE LET c == Call(lv.fn, r.v, r.w.g, cx.tr)
                  rw == NoteText(lv.fn, r.v, r.w) IN
              IF c.ok THEN
                 Ok(c.v, IF c.g.n > r.w.g.n
                         THEN Emit([rw EXCEPT !.g = c.g], [e |-> "gnode", id |-> r.w.g.n])
                         ELSE rw)
              ELSE IF c.kind = "Unsupported" THEN Err("Unsupported", [r.w EXCEPT !.unsup = <<[re |-> "", subj |-> ""]>>])
              ELSE Err(c.kind, r.w)

\* evaluate_lazy: builds a lazy value; dbg = debug info for thunks created on the way (loop variables)
EvalLazy(cx, e, env, w, dbg) ==
  CASE e.k = "null"  -> Ok(LVal(VNull), w)
    [] e.k = "true"  -> Ok(LVal(VBool(TRUE)), w)
    [] e.k = "false" -> Ok(LVal(VBool(FALSE)), w)
    [] e.k = "int"   -> Ok(LVal(VInt(e.hi, e.lo)), w)
    [] e.k = "str"   -> Ok(LVal(VStr(e.v)), w)
    [] e.k \in {"list", "set"} ->
         LET r == EvalLazySeq(cx, e.elems, 1, env, w, <<>>, dbg) IN
         IF r.ok THEN Ok([lz |-> e.k, elems |-> r.v], r.w) ELSE r
    [] e.k \in {"listc", "setc"} ->
         LET rl == EvalLazy(cx, e.value, env, w, dbg)
             rv == IF rl.ok THEN Force(cx, rl.v, rl.w) ELSE rl      \* evaluate_eager
         IN IF ~rv.ok THEN rv
            ELSE IF rv.v.t # "list" THEN Err("ExpectedList", rv.w)
            ELSE LET r == EvalLazyComp(cx, e, rv.v.l, 1, env, rv.w, <<>>, dbg) IN
                 IF ~r.ok THEN r
                 ELSE Ok([lz |-> IF e.k = "listc" THEN "list" ELSE "set", elems |-> r.v], r.w)
    [] e.k = "cap" -> Ok(LVal(env.caps[e.name]), w)
    [] e.k = "var" ->
         IF e.name \in DOMAIN Globals(cx) THEN Ok(LVal(Globals(cx)[e.name]), w)
         ELSE LET i == FrameOf(env.fr, e.name) IN
              IF i = 0 THEN Err("UndefinedVariable", w) ELSE Ok(env.fr[i][e.name].v, w)
    [] e.k = "svar" ->
         LET r == EvalLazy(cx, e.scope, env, w, dbg) IN
         IF ~r.ok THEN r ELSE Ok([lz |-> "scoped", scope |-> r.v, name |-> e.name], r.w)
    [] e.k = "call" ->
         LET r == EvalLazySeq(cx, e.args, 1, env, w, <<>>, dbg) IN
         IF ~r.ok THEN r ELSE Ok([lz |-> "call", fn |-> e.fn, args |-> r.v], r.w)
    [] e.k = "rcap" ->
         \* the reference gives one rule for both modes: an undefined regex capture is an error
         IF e.i + 1 > Len(env.rc) THEN Err("UndefinedRegexCapture", w) ELSE Ok(LVal(VStr(env.rc[e.i + 1])), w)

EvalLazySeq(cx, es, i, env, w, acc, dbg) ==
  IF i > Len(es) THEN Ok(acc, w)
  ELSE LET r == EvalLazy(cx, es[i], env, w, dbg) IN
       IF ~r.ok THEN r ELSE EvalLazySeq(cx, es, i + 1, env, r.w, Append(acc, r.v), dbg)

EvalLazyComp(cx, e, items, i, env, w, acc, dbg) ==
  IF i > Len(items) THEN Ok(acc, w)
  ELSE IF e.var.name \in DOMAIN Globals(cx) THEN Err("DuplicateVariable", w)
  ELSE LET a == StoreAdd(w, LVal(items[i]), dbg)
           env2 == [env EXCEPT !.fr = Append(@, (e.var.name :> [v |-> LVar(a.i), m |-> FALSE]))]
           r == EvalLazy(cx, e.elem, env2, a.w, dbg)
       IN IF ~r.ok THEN r ELSE EvalLazyComp(cx, e, items, i + 1, env, r.w, Append(acc, r.v), dbg)

EvalEager(cx, e, env, w, dbg) ==
  LET r == EvalLazy(cx, e, env, w, dbg) IN IF r.ok THEN Force(cx, r.v, r.w) ELSE r

=============================================================================
