---------------------------- MODULE MCJson ----------------------------
(***************************************************************************)
(* Property C14: the JSON serialisation and the pretty-printed form of a   *)
(* graph.  Encode(g) is the abstract JSON value the reference prescribes   *)
(* (array of nodes in index order with id, edges ascending by sink with    *)
(* sink/attrs, typed attribute values); Decode is its inverse and TLC      *)
(* checks Decode(Encode(g)) = g for every graph of the pool.  PrettyOf(g)  *)
(* is the line structure of the pretty form.  Both are printed for         *)
(* comparison with serde_json::to_value(&graph) and graph.pretty_print().  *)
(***************************************************************************)
EXTENDS TSGExec, Json, IOUtils

Graphs == ndJsonDeserialize(IOEnv.GRAPHS)     \* [id, n, nodes: Seq([attrs, out: Seq([sink, attrs])])], values in interchange form
Trees == JsonDeserialize(IOEnv.TREES)
Tr == Trees[3].nodes

AttrsFromJ(m) == [k \in DOMAIN m |-> FromJ(m[k])]
GraphFromJ(j) ==
  [n |-> j.n,
   na |-> [i \in 1..j.n |-> AttrsFromJ(j.nodes[i].attrs)],
   out |-> [i \in 1..j.n |-> [p \in 1..Len(j.nodes[i].out) |-> [sink |-> j.nodes[i].out[p].sink, at |-> AttrsFromJ(j.nodes[i].out[p].attrs)]]]]

RECURSIVE EncVal(_), DecVal(_)
EncVal(v) ==
  CASE v.t = "null" -> [type |-> "null"]
    [] v.t = "bool" -> [type |-> "bool", bool |-> v.b]
    [] v.t = "int"  -> [type |-> "int", hi |-> v.hi, lo |-> v.lo]
    [] v.t = "str"  -> [type |-> "string", string |-> v.s]
    [] v.t = "list" -> [type |-> "list", values |-> [i \in 1..Len(v.l) |-> EncVal(v.l[i])]]
    [] v.t = "set"  -> [type |-> "set", values |-> {EncVal(x) : x \in v.e}]
    [] v.t = "syn"  -> [type |-> "syntaxNode", id |-> v.n]
    [] v.t = "gn"   -> [type |-> "graphNode", id |-> v.g]
DecVal(j) ==
  CASE j.type = "null" -> VNull
    [] j.type = "bool" -> VBool(j.bool)
    [] j.type = "int" -> VInt(j.hi, j.lo)
    [] j.type = "string" -> VStr(j.string)
    [] j.type = "list" -> VList([i \in 1..Len(j.values) |-> DecVal(j.values[i])])
    [] j.type = "set" -> VSet({DecVal(x) : x \in j.values})
    [] j.type = "syntaxNode" -> VSyn(j.id)
    [] j.type = "graphNode" -> VGn(j.id)
EncAttrs(m) == [k \in DOMAIN m |-> EncVal(m[k])]
DecAttrs(m) == [k \in DOMAIN m |-> DecVal(m[k])]
Encode(g) ==
  [i \in 1..g.n |-> [id |-> i - 1,
                     edges |-> [p \in 1..Len(g.out[i]) |-> [sink |-> g.out[i][p].sink, attrs |-> EncAttrs(g.out[i][p].at)]],
                     attrs |-> EncAttrs(g.na[i])]]
Decode(j) ==
  [n |-> Len(j),
   na |-> [i \in 1..Len(j) |-> DecAttrs(j[i].attrs)],
   out |-> [i \in 1..Len(j) |-> [p \in 1..Len(j[i].edges) |-> [sink |-> j[i].edges[p].sink, at |-> DecAttrs(j[i].edges[p].attrs)]]]]

\* ---- pretty form: Rust's Debug ("{:?}") of values; strings only when they need no escaping
RECURSIVE DebugVal(_), DebugSeq(_, _), DebugOk(_)
\* Rust's `{:?}` of a string, for the characters of the ESCAPES table (file ESC: one [ch, esc] pair per character the pools use
\* outside the plain set - quote, backslash, line break, tab, carriage return, NUL, another control character, apostrophe,
\* printable non-ASCII letters - with the escape the language reference of Rust prescribes); other characters: not rendered
Escapes == JsonDeserialize(IOEnv.ESC)
EscOf(ch) == LET S == {i \in 1..Len(Escapes) : Escapes[i][1] = ch} IN IF S = {} THEN ch ELSE Escapes[CHOOSE i \in S : TRUE][2]
Known(ch) == ch \in PlainChars \/ \E i \in 1..Len(Escapes) : Escapes[i][1] = ch
IsDebuggable(s) == \A i \in 1..Len(s) : Known(CharAt(s, i))
RECURSIVE DebugStrFrom(_, _)
DebugStrFrom(s, i) == IF i > Len(s) THEN "" ELSE EscOf(CharAt(s, i)) \o DebugStrFrom(s, i + 1)

DebugVal(v) ==
  CASE v.t = "null" -> "#null"
    [] v.t = "bool" -> IF v.b THEN "#true" ELSE "#false"
    [] v.t = "int"  -> DecStr(v.hi, v.lo)
    [] v.t = "str"  -> "\"" \o DebugStrFrom(v.s, 1) \o "\""
    [] v.t = "list" -> "[" \o DebugSeq(v.l, 1) \o "]"
    [] v.t = "set"  -> "{" \o DebugSeq(SortSet(v.e, <<>>), 1) \o "}"
    [] v.t = "syn"  -> "[syntax node " \o Tr[v.n].kind \o " (" \o NatStr(Tr[v.n].sr + 1) \o ", " \o NatStr(Tr[v.n].sc + 1) \o ")]"
    [] v.t = "gn"   -> "[graph node " \o NatStr(v.g) \o "]"
DebugSeq(l, i) ==
  IF i > Len(l) THEN "" ELSE IF i = Len(l) THEN DebugVal(l[i]) ELSE DebugVal(l[i]) \o ", " \o DebugSeq(l, i + 1)
DebugOk(v) ==
  CASE v.t = "str" -> IsDebuggable(v.s)
    [] v.t = "list" -> \A i \in 1..Len(v.l) : DebugOk(v.l[i])
    [] v.t = "set" -> SetSortable(v.e, <<>>) /\ \A x \in v.e : DebugOk(x)
    [] OTHER -> TRUE
PrettyAttrs(m) == [k \in DOMAIN m |-> IF DebugOk(m[k]) THEN [ok |-> TRUE, text |-> DebugVal(m[k])] ELSE [ok |-> FALSE, text |-> ""]]
PrettyOf(g) ==
  [i \in 1..g.n |-> [node |-> i - 1, attrs |-> PrettyAttrs(g.na[i]),
                     edges |-> [p \in 1..Len(g.out[i]) |-> [sink |-> g.out[i][p].sink, attrs |-> PrettyAttrs(g.out[i][p].at)]]]]

VARIABLES gi, phase
vars == <<gi, phase>>
G == GraphFromJ(Graphs[gi])
Init == gi \in 1..Len(Graphs) /\ phase = "encode"
EncodeStep == phase = "encode" /\ phase' = "done" /\ UNCHANGED gi
Spec == Init /\ [][EncodeStep]_vars

\* (guards: the work is done in the states the workers generate, not in the initial states of the single start-up thread)
DecodeEncodeIsId == phase = "done" => Decode(Encode(G)) = G
EdgesAscending == phase = "done" => \A i \in 1..Len(Encode(G)) : \A p \in 1..(Len(Encode(G)[i].edges) - 1) : Encode(G)[i].edges[p].sink < Encode(G)[i].edges[p + 1].sink
IdsInOrder == phase = "done" => \A i \in 1..Len(Encode(G)) : Encode(G)[i].id = i - 1
Out == phase = "done" => PrintT(<<"ENC", ToJson([id |-> Graphs[gi].id, json |-> Encode(G), pretty |-> PrettyOf(G)])>>)
=============================================================================
