---------------------------- MODULE MCScan ----------------------------
(***************************************************************************)
(* Design-level model checking of `scan` (property C10).                   *)
(* TLC enumerates every list of at most MaxArms arms over the regex pool   *)
(* and every subject of the subject pool, runs the machine's own scan      *)
(* iteration (TSGExec!ScanArms, the operator the interpreters' machine     *)
(* uses) to completion, and checks that the iterations performed are       *)
(* exactly the sequence the language reference defines declaratively, that *)
(* the position strictly increases (termination) and that empty matches    *)
(* are errors.  Each completed behaviour is printed for replay into the    *)
(* real library.                                                           *)
(***************************************************************************)
EXTENDS TSGExec, Json, IOUtils

CONSTANT MaxArms

Pool == JsonDeserialize(IOEnv.TABLES)
NRe == Len(Pool.regexes)
ValidRe == {i \in 1..NRe : Pool.regexes[i].valid}

RECURSIVE SeqsUpTo(_, _)
SeqsUpTo(S, n) == IF n = 0 THEN {<<>>} ELSE LET T == SeqsUpTo(S, n - 1) IN T \cup {Append(t, x) : t \in {u \in T : Len(u) = n - 1}, x \in S}
ArmLists == SeqsUpTo(ValidRe, MaxArms) \ {<<>>}

\* State variables hold indices and numbers only: TLC writes queued states to disk with one byte per character, so text
\* outside ASCII must not be part of a state (subjects and groups are looked up in the constant pool instead).
VARIABLES arms,   \* sequence of regex-pool indices
          si,     \* index of the subject string in the pool
          pos,    \* current position (characters)
          hist,   \* iterations performed: [from, arm, s, e]
          gok,    \* the groups bound in every iteration so far were those of the chosen arm's match
          st      \* "run" | "done" | "err"
vars == <<arms, si, pos, hist, gok, st>>
subj == Pool.subjects[si]

ArmRecs == [j \in 1..Len(arms) |-> [re |-> Pool.regexes[arms[j]].re]]
FakeCx(mode) == [c |-> [retab |-> Pool.tabs, mode |-> mode]]
W0 == [np |-> 0, ca |-> 0, cancel |-> FALSE, ev |-> <<>>, unsup |-> <<>>]

Row(j, p) == RegexTab(FakeCx("strict"), Pool.regexes[arms[j]].re, subj).tab[p + 1]

Init ==
  /\ arms \in ArmLists
  /\ si \in 1..Len(Pool.subjects)
  /\ pos = 0 /\ hist = <<>> /\ st = "run" /\ gok = TRUE

ScanIter ==
  /\ st = "run"
  /\ IF pos >= Len(subj) THEN st' = "done" /\ UNCHANGED <<pos, hist, gok>>
     ELSE LET r == ScanArms(FakeCx("strict"), ArmRecs, 1, subj, pos, W0, [arm |-> 0, s |-> 0, e |-> 0, g |-> <<>>]) IN
          IF ~r.ok THEN st' = "err" /\ UNCHANGED <<pos, hist, gok>>
          ELSE IF r.v.arm = 0 THEN st' = "done" /\ UNCHANGED <<pos, hist, gok>>
          ELSE /\ hist' = Append(hist, [from |-> pos, arm |-> r.v.arm, s |-> r.v.s, e |-> r.v.e])
               /\ gok' = (gok /\ r.v.g = Row(r.v.arm, pos).g)
               /\ pos' = pos + r.v.e
               /\ st' = "run"
  /\ UNCHANGED <<arms, si>>

Spec == Init /\ [][ScanIter]_vars /\ WF_vars(ScanIter)

\* ---- the reference's definition, as a predicate on a finished sequence of iterations
Start(k) == IF k = 1 THEN 0 ELSE hist[k - 1].from + hist[k - 1].e
IsChosen(k) ==
  LET h == hist[k]  row == Row(h.arm, h.from) IN
  /\ h.from = Start(k)
  /\ row.m /\ row.s = h.s /\ row.e = h.e /\ gok
  /\ \A j \in 1..Len(arms) : Row(j, h.from).m => (h.s < Row(j, h.from).s \/ (h.s = Row(j, h.from).s /\ h.arm <= j))
NothingLeft ==
  LET p == Start(Len(hist) + 1) IN p >= Len(subj) \/ \A j \in 1..Len(arms) : ~Row(j, p).m

LoopEqualsDefinition == st = "done" => (\A k \in 1..Len(hist) : IsChosen(k)) /\ NothingLeft
\* an error is raised exactly when the candidate set at the current position contains an empty match
EmptyMatchIsError ==
  st = "err" => \E j \in 1..Len(arms) : Row(j, pos).m /\ Row(j, pos).s = Row(j, pos).e
NoEmptyIteration == \A k \in 1..Len(hist) : hist[k].e > 0 /\ hist[k].s < hist[k].e
GroupsOf(k) == Row(hist[k].arm, hist[k].from).g
GroupsBound == gok /\ \A k \in 1..Len(hist) : Len(GroupsOf(k)) = Pool.regexes[arms[hist[k].arm]].ngroups
PositionStrictlyIncreases == [][pos' > pos \/ (pos' = pos /\ st' # "run")]_vars
Terminates == <>(st # "run")

Replay ==
  st # "run" => PrintT(<<"REPLAY", ToJson([arms |-> [j \in 1..Len(arms) |-> Pool.regexes[arms[j]].re], subj |-> subj,
                                           status |-> st, hist |-> [k \in 1..Len(hist) |-> [arm |-> hist[k].arm, g |-> GroupsOf(k)]]])>>)
=============================================================================
