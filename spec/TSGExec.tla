---------------------------- MODULE TSGExec ----------------------------
(***************************************************************************)
(* The two interpreters of the graph DSL as one deterministic small-step   *)
(* machine.  One step = one "critical section" of the implementation:      *)
(* check of the globals, begin of a match, one statement, one loop         *)
(* iteration, one scan iteration, end of a block, and - in lazy mode -     *)
(* one deferred statement, the forcing of the thunk store and of the       *)
(* scoped store.  A step threads the world through TSGEval's functions.    *)
(*                                                                         *)
(* machine state  s = [ph, w, ctl, caps, cur, si, mi, li, qi, status, err, *)
(*                     glob, steps]                                        *)
(*   ph      "init" | "matches" | "edges" | "attrs" | "prints" | "store" | *)
(*           "scoped" | "done"                                             *)
(*   ctl     control stack of the current match (block / for / scan)       *)
(*   caps    capture values of the current match                           *)
(*   cur     [st, nk, np]: stanza location, kind and position of the root  *)
(*   status  "run" | "ok" | "err" | "cancelled"                            *)
(***************************************************************************)
EXTENDS TSGEval

\* ---------------------------------------------------------------- context of a run
Cx(c, tr, glob) ==
  [c |-> c, tr |-> tr, inh |-> Range(c.prog.inherit), sh |-> c.prog.shorthands, glob |-> glob]

IsLazy(c) == c.mode = "lazy"

\* index of the shorthand named `name` (the last definition wins, as in a map), 0 if none
ShIdx(cx, name) ==
  LET S == {i \in 1..Len(cx.sh) : cx.sh[i].name = name} IN
  IF S = {} THEN 0 ELSE CHOOSE i \in S : \A j \in S : j <= i

\* regex behaviour table of (regex text, subject); <<>> if the oracle did not supply it
RegexTab(cx, re, subj) ==
  LET S == {i \in 1..Len(cx.c.retab) : cx.c.retab[i].re = re /\ cx.c.retab[i].subj = subj} IN
  IF S = {} THEN [found |-> FALSE] ELSE [found |-> TRUE, tab |-> cx.c.retab[CHOOSE i \in S : TRUE].tab]

LocText(loc) == "line " \o NatStr(loc[1] + 1) \o " column " \o NatStr(loc[2] + 1)

\* ---------------------------------------------------------------- text of expressions (ast.rs Display)
PlainChars == {CharAt("abcdefghijklmnopqrstuvwxyzABCDEFGHIJKLMNOPQRSTUVWXYZ0123456789 _-./(){}<>[]:;,+*?!@#$%^&=|~", i) : i \in 1..90}
IsPlainString(s) == \A i \in 1..Len(s) : CharAt(s, i) \in PlainChars

RECURSIVE ExprText(_), ExprTextSeq(_, _, _), ExprTextOk(_)
ExprText(e) ==
  CASE e.k = "null" -> "#null" [] e.k = "true" -> "true" [] e.k = "false" -> "false"
    [] e.k = "int" -> DecStr(e.hi, e.lo)
    [] e.k = "str" -> "\"" \o e.v \o "\""
    [] e.k = "list" -> "[" \o ExprTextSeq(e.elems, 1, ", ") \o "]"
    [] e.k = "set" -> "{" \o ExprTextSeq(e.elems, 1, ", ") \o "}"
    [] e.k = "listc" -> "[ " \o ExprText(e.elem) \o " for " \o e.var.name \o " in " \o ExprText(e.value) \o " ]"
    [] e.k = "setc" -> "{ " \o ExprText(e.elem) \o " for " \o e.var.name \o " in " \o ExprText(e.value) \o " }"
    [] e.k = "cap" -> "@" \o e.name
    [] e.k = "var" -> e.name
    [] e.k = "svar" -> ExprText(e.scope) \o "." \o e.name
    [] e.k = "call" -> "(" \o e.fn \o (IF Len(e.args) = 0 THEN "" ELSE " " \o ExprTextSeq(e.args, 1, " ")) \o ")"
    [] e.k = "rcap" -> "$" \o NatStr(e.i)
ExprTextSeq(es, i, sep) ==
  IF i > Len(es) THEN "" ELSE IF i = Len(es) THEN ExprText(es[i])
  ELSE ExprText(es[i]) \o sep \o ExprTextSeq(es, i + 1, sep)
ExprTextOk(e) ==
  CASE e.k = "str" -> IsPlainString(e.v)
    [] e.k \in {"list", "set"} -> \A i \in 1..Len(e.elems) : ExprTextOk(e.elems[i])
    [] e.k \in {"listc", "setc"} -> ExprTextOk(e.elem) /\ ExprTextOk(e.value)
    [] e.k = "svar" -> ExprTextOk(e.scope)
    [] e.k = "call" -> \A i \in 1..Len(e.args) : ExprTextOk(e.args[i])
    [] OTHER -> TRUE

\* ---------------------------------------------------------------- attributes
\* Attributes::add on a map: [ok, m]; a different value is a conflict, an equal value a no-op
AttrAdd(m, name, v) ==
  IF name \in DOMAIN m THEN (IF m[name] = v THEN [ok |-> TRUE, m |-> m] ELSE [ok |-> FALSE, m |-> m])
  ELSE [ok |-> TRUE, m |-> MapPut(m, name, v)]

\* debug attributes of a `node` statement on the fresh node gn
NodeDebugAttrs(cx, st, gn, root, w) ==
  IF ~cx.c.dbg.on THEN [ok |-> TRUE, w |-> w]
  ELSE IF ~ExprTextOk(st.var) THEN [ok |-> TRUE, w |-> [w EXCEPT !.unsup = <<[re |-> "", subj |-> ""]>>]]
  ELSE LET a1 == AttrAdd(w.g.na[gn + 1], cx.c.dbg.var, VStr(ExprText(st.var)))
           a2 == AttrAdd(a1.m, cx.c.dbg.loc, VStr(LocText(st.var.loc)))
           a3 == AttrAdd(a2.m, cx.c.dbg.mat, VSyn(root))
       IN IF a1.ok /\ a2.ok /\ a3.ok THEN [ok |-> TRUE, w |-> [w EXCEPT !.g.na[gn + 1] = a3.m]]
          ELSE [ok |-> FALSE, w |-> w]

EdgeDebugAttrs(cx, st) ==
  IF cx.c.dbg.on THEN (cx.c.dbg.loc :> VStr(LocText(st.loc))) ELSE EmptyMap

\* ---------------------------------------------------------------- variables (statement level)
\* results: [ok |-> TRUE, w, fr] | [ok |-> FALSE, e, w]
SOk(w, fr) == [ok |-> TRUE, w |-> w, fr |-> fr]

AddLocal(cx, fr, name, val, mutable, w) ==
  IF name \in DOMAIN Globals(cx) THEN Err("DuplicateVariable", w)
  ELSE IF name \in DOMAIN fr[Len(fr)] THEN Err("DuplicateVariable", w)
  ELSE SOk(w, [fr EXCEPT ![Len(fr)] = MapPut(@, name, [v |-> val, m |-> mutable])])

SetLocal(cx, fr, name, val, w) ==
  IF name \in DOMAIN Globals(cx) THEN Err("CannotAssignImmutableVariable", w)
  ELSE LET i == FrameOf(fr, name) IN
       IF i = 0 THEN Err("UndefinedVariable", w)
       ELSE IF ~fr[i][name].m THEN Err("CannotAssignImmutableVariable", w)
       ELSE SOk(w, [fr EXCEPT ![i][name].v = val])

\* strict: variable.add / variable.set for the target `var` of let / var / set / node
AddVarStrict(cx, var, val, mutable, env, w) ==
  IF var.k = "var" THEN AddLocal(cx, env.fr, var.name, val, mutable, w)
  ELSE LET r == Eval(cx, var.scope, env, w) IN
       IF ~r.ok THEN r
       ELSE IF r.v.t # "syn" THEN Err("InvalidVariableScope", r.w)
       ELSE LET n == r.v.n
                w1 == Emit(r.w, [e |-> "sadd", node |-> n, name |-> var.name, mutable |-> mutable])
            IN IF <<n, var.name>> \in DOMAIN w1.sc THEN Err("DuplicateVariable", w1)
               ELSE SOk([w1 EXCEPT !.sc = MapPut(@, <<n, var.name>>, [v |-> val, m |-> mutable])], env.fr)

SetVarStrict(cx, var, val, env, w) ==
  IF var.k = "var" THEN SetLocal(cx, env.fr, var.name, val, w)
  ELSE LET r == Eval(cx, var.scope, env, w) IN
       IF ~r.ok THEN r
       ELSE IF r.v.t # "syn" THEN Err("InvalidVariableScope", r.w)
       ELSE LET n == r.v.n
                w1 == Emit(r.w, [e |-> "sset", node |-> n, name |-> var.name])
            IN IF <<n, var.name>> \notin DOMAIN w1.sc THEN Err("DuplicateVariable", w1)
               ELSE IF ~w1.sc[<<n, var.name>>].m THEN Err("DuplicateVariable", w1)
               ELSE SOk([w1 EXCEPT !.sc[<<n, var.name>>].v = val], env.fr)

\* lazy: add_lazy / set_lazy; lz = lazy value, dbg = debug info of the current statement
AddVarLazy(cx, var, lz, mutable, env, w, dbg) ==
  IF var.k = "var" THEN
     IF var.name \in DOMAIN Globals(cx) THEN Err("DuplicateVariable", w)
     ELSE LET a == StoreAdd(w, lz, dbg) IN
          IF var.name \in DOMAIN env.fr[Len(env.fr)] THEN Err("DuplicateVariable", a.w)
          ELSE SOk(a.w, [env.fr EXCEPT ![Len(env.fr)] = MapPut(@, var.name, [v |-> LVar(a.i), m |-> mutable])])
  ELSE IF mutable THEN Err("CannotDefineMutableScopedVariable", w)
  ELSE LET r == EvalLazy(cx, var.scope, env, w, dbg) IN
       IF ~r.ok THEN r
       ELSE LET a == StoreAdd(r.w, lz, dbg)
                w1 == Emit(a.w, [e |-> "sadd", name |-> var.name])
                cell == IF var.name \in DOMAIN w1.ss THEN w1.ss[var.name]
                        ELSE [st |-> "unforced", pairs |-> <<>>, map |-> [x \in {} |-> 0]]
            IN IF cell.st = "forcing" THEN Err("RecursivelyDefinedScopedVariable", w1)
               ELSE IF cell.st = "forced" THEN Err("VariableScopesAlreadyForced", w1)
               ELSE SOk([w1 EXCEPT !.ss = MapPut(@, var.name,
                            [cell EXCEPT !.pairs = Append(@, [scope |-> r.v, value |-> LVar(a.i), dbg |-> dbg])])],
                        env.fr)

SetVarLazy(cx, var, lz, env, w, dbg) ==
  IF var.k = "svar" THEN Err("CannotAssignScopedVariable", w)
  ELSE IF var.name \in DOMAIN Globals(cx) THEN Err("CannotAssignImmutableVariable", w)
  ELSE LET a == StoreAdd(w, lz, dbg)
           i == FrameOf(env.fr, var.name)
       IN IF i = 0 THEN Err("UndefinedVariable", a.w)
          ELSE IF ~env.fr[i][var.name].m THEN Err("CannotAssignImmutableVariable", a.w)
          ELSE SOk(a.w, [env.fr EXCEPT ![i][var.name].v = LVar(a.i)])

\* ---------------------------------------------------------------- attribute lists (with shorthand expansion)
\* strict: tgt = [on |-> "node", src] | [on |-> "edge", src, dst]
RECURSIVE AttrsStrict(_, _, _, _, _, _), AttrsLazy(_, _, _, _, _, _, _)

AddAttrStrict(tgt, name, v, w) ==
  IF tgt.on = "node" THEN
     LET w1 == Emit(w, [e |-> "attr", on |-> "node", src |-> tgt.src, dst |-> -1, name |-> name, val |-> v])
         a == AttrAdd(w1.g.na[tgt.src + 1], name, v)
     IN IF a.ok THEN Ok(VNull, [w1 EXCEPT !.g.na[tgt.src + 1] = a.m]) ELSE Err("DuplicateAttribute", w1)
  ELSE IF ~HasEdge(w.g, tgt.src, tgt.dst) THEN Err("UndefinedEdge", w)
  ELSE LET w1 == Emit(w, [e |-> "attr", on |-> "edge", src |-> tgt.src, dst |-> tgt.dst, name |-> name, val |-> v])
           a == AttrAdd(EdgeAttrs(w1.g, tgt.src, tgt.dst), name, v)
       IN IF a.ok THEN Ok(VNull, [w1 EXCEPT !.g = SetEdgeAttrs(@, tgt.src, tgt.dst, a.m)])
          ELSE Err("DuplicateAttribute", w1)

AttrsStrict(cx, attrs, i, env, w, tgt) ==
  IF i > Len(attrs) THEN Ok(VNull, w)
  ELSE LET a == attrs[i]
           w0 == Poll(w, "executing attribute")
       IN IF w0.cancel THEN Err("Cancelled", w0)
          ELSE LET rv == Eval(cx, a.value, env, w0) IN
            IF ~rv.ok THEN rv
            ELSE LET si == ShIdx(cx, a.name)
                     r == IF si = 0 THEN AddAttrStrict(tgt, a.name, rv.v, rv.w)
                          ELSE LET sh == cx.sh[si] IN
                               IF sh.var.name \in DOMAIN Globals(cx) THEN Err("DuplicateVariable", rv.w)
                               ELSE AttrsStrict(cx, sh.attrs, 1,
                                                [env EXCEPT !.fr = <<(sh.var.name :> [v |-> rv.v, m |-> FALSE])>>],
                                                rv.w, tgt)
                 IN IF ~r.ok THEN r ELSE AttrsStrict(cx, attrs, i + 1, env, r.w, tgt)

\* lazy: collects [name, lz] pairs
AttrsLazy(cx, attrs, i, env, w, dbg, acc) ==
  IF i > Len(attrs) THEN Ok(acc, w)
  ELSE LET a == attrs[i]
           w0 == Poll(w, "executing attribute")
       IN IF w0.cancel THEN Err("Cancelled", w0)
          ELSE LET rv == EvalLazy(cx, a.value, env, w0, dbg) IN
            IF ~rv.ok THEN rv
            ELSE LET si == ShIdx(cx, a.name)
                     r == IF si = 0 THEN Ok(Append(acc, [name |-> a.name, lz |-> rv.v]), rv.w)
                          ELSE LET sh == cx.sh[si] IN
                               IF sh.var.name \in DOMAIN Globals(cx) THEN Err("DuplicateVariable", rv.w)
                               ELSE LET t == StoreAdd(rv.w, rv.v, dbg) IN
                                    AttrsLazy(cx, sh.attrs, 1,
                                              [env EXCEPT !.fr = <<(sh.var.name :> [v |-> LVar(t.i), m |-> FALSE])>>],
                                              t.w, dbg, acc)
                 IN IF ~r.ok THEN r ELSE AttrsLazy(cx, attrs, i + 1, env, r.w, dbg, r.v)

\* ---------------------------------------------------------------- simple statements
AsGn(r) == IF ~r.ok THEN r ELSE IF r.v.t # "gn" THEN Err("ExpectedGraphNode", r.w) ELSE r

RECURSIVE PrintStrict(_, _, _, _, _), PrintLazy(_, _, _, _, _, _, _)
PrintStrict(cx, vals, i, env, w) ==
  IF i > Len(vals) THEN Ok(VNull, w)
  ELSE IF vals[i].k = "str" THEN PrintStrict(cx, vals, i + 1, env, w)
  ELSE LET r == Eval(cx, vals[i], env, w) IN
       IF ~r.ok THEN r ELSE PrintStrict(cx, vals, i + 1, env, NoteText("print", <<r.v>>, r.w))
PrintLazy(cx, vals, i, env, w, dbg, acc) ==
  IF i > Len(vals) THEN Ok(acc, w)
  ELSE IF vals[i].k = "str" THEN PrintLazy(cx, vals, i + 1, env, w, dbg, Append(acc, [txt |-> TRUE, lz |-> LVal(VNull)]))
  ELSE LET r == EvalLazy(cx, vals[i], env, w, dbg) IN
       IF ~r.ok THEN r ELSE PrintLazy(cx, vals, i + 1, env, r.w, dbg, Append(acc, [txt |-> FALSE, lz |-> r.v]))

\* strict execution of let/var/set/node/edge/attrn/attre/print : [ok, w, fr] | [ok |-> FALSE, e, w]
SimpleStrict(cx, st, env, w, root) ==
  CASE st.k \in {"let", "var"} ->
         LET r == Eval(cx, st.value, env, w) IN
         IF ~r.ok THEN r ELSE AddVarStrict(cx, st.var, r.v, st.k = "var", env, r.w)
    [] st.k = "set" ->
         LET r == Eval(cx, st.value, env, w) IN
         IF ~r.ok THEN r ELSE SetVarStrict(cx, st.var, r.v, env, r.w)
    [] st.k = "node" ->
         LET gn == w.g.n
             w1 == Emit([w EXCEPT !.g = AddGraphNode(@)], [e |-> "gnode", id |-> gn])
             d == NodeDebugAttrs(cx, st, gn, root, w1)
         IN IF ~d.ok THEN Err("DuplicateAttribute", d.w)
            ELSE AddVarStrict(cx, st.var, VGn(gn), FALSE, env, d.w)
    [] st.k = "edge" ->
         LET r1 == AsGn(Eval(cx, st.src, env, w)) IN
         IF ~r1.ok THEN r1
         ELSE LET r2 == AsGn(Eval(cx, st.dst, env, r1.w)) IN
           IF ~r2.ok THEN r2
           ELSE LET i == r1.v.g  j == r2.v.g  new == ~HasEdge(r2.w.g, i, j)
                    w1 == [r2.w EXCEPT !.g = AddEdge(@, i, j, EdgeDebugAttrs(cx, st))]
                IN SOk(Emit(w1, [e |-> "edge", src |-> i, dst |-> j, new |-> new]), env.fr)
    [] st.k = "attrn" ->
         LET r1 == AsGn(Eval(cx, st.node, env, w)) IN
         IF ~r1.ok THEN r1
         ELSE LET r == AttrsStrict(cx, st.attrs, 1, env, r1.w, [on |-> "node", src |-> r1.v.g]) IN
              IF ~r.ok THEN r ELSE SOk(r.w, env.fr)
    [] st.k = "attre" ->
         LET r1 == AsGn(Eval(cx, st.src, env, w)) IN
         IF ~r1.ok THEN r1
         ELSE LET r2 == AsGn(Eval(cx, st.dst, env, r1.w)) IN
           IF ~r2.ok THEN r2
           ELSE LET r == AttrsStrict(cx, st.attrs, 1, env, r2.w, [on |-> "edge", src |-> r1.v.g, dst |-> r2.v.g]) IN
                IF ~r.ok THEN r ELSE SOk(r.w, env.fr)
    [] st.k = "print" ->
         LET r == PrintStrict(cx, st.values, 1, env, w) IN IF ~r.ok THEN r ELSE SOk(r.w, env.fr)

Push(w, qn, d) == [w EXCEPT !.q[qn] = Append(@, d)]

SimpleLazy(cx, st, env, w, root, dbg) ==
  CASE st.k \in {"let", "var"} ->
         LET r == EvalLazy(cx, st.value, env, w, dbg) IN
         IF ~r.ok THEN r ELSE AddVarLazy(cx, st.var, r.v, st.k = "var", env, r.w, dbg)
    [] st.k = "set" ->
         LET r == EvalLazy(cx, st.value, env, w, dbg) IN
         IF ~r.ok THEN r ELSE SetVarLazy(cx, st.var, r.v, env, r.w, dbg)
    [] st.k = "node" ->
         LET gn == w.g.n
             w1 == Emit([w EXCEPT !.g = AddGraphNode(@)], [e |-> "gnode", id |-> gn])
             d == NodeDebugAttrs(cx, st, gn, root, w1)
         IN IF ~d.ok THEN Err("DuplicateAttribute", d.w)
            ELSE AddVarLazy(cx, st.var, LVal(VGn(gn)), FALSE, env, d.w, dbg)
    [] st.k = "edge" ->
         LET r1 == EvalLazy(cx, st.src, env, w, dbg) IN
         IF ~r1.ok THEN r1
         ELSE LET r2 == EvalLazy(cx, st.dst, env, r1.w, dbg) IN
           IF ~r2.ok THEN r2
           ELSE SOk(Push(r2.w, "edge", [k |-> "edge", src |-> r1.v, dst |-> r2.v, at |-> EdgeDebugAttrs(cx, st), dbg |-> dbg]), env.fr)
    [] st.k = "attrn" ->
         LET r1 == EvalLazy(cx, st.node, env, w, dbg) IN
         IF ~r1.ok THEN r1
         ELSE LET r == AttrsLazy(cx, st.attrs, 1, env, r1.w, dbg, <<>>) IN
              IF ~r.ok THEN r
              ELSE SOk(Push(r.w, "attr", [k |-> "attrn", node |-> r1.v, attrs |-> r.v, dbg |-> dbg]), env.fr)
    [] st.k = "attre" ->
         LET r1 == EvalLazy(cx, st.src, env, w, dbg) IN
         IF ~r1.ok THEN r1
         ELSE LET r2 == EvalLazy(cx, st.dst, env, r1.w, dbg) IN
           IF ~r2.ok THEN r2
           ELSE LET r == AttrsLazy(cx, st.attrs, 1, env, r2.w, dbg, <<>>) IN
                IF ~r.ok THEN r
                ELSE SOk(Push(r.w, "attr", [k |-> "attre", src |-> r1.v, dst |-> r2.v, attrs |-> r.v, dbg |-> dbg]), env.fr)
    [] st.k = "print" ->
         LET r == PrintLazy(cx, st.values, 1, env, w, dbg, <<>>) IN
         IF ~r.ok THEN r ELSE SOk(Push(r.w, "print", [k |-> "print", args |-> r.v, dbg |-> dbg]), env.fr)

\* ---------------------------------------------------------------- conditions of an `if`
\* all conditions of an arm are evaluated (no short-circuit); result [ok, v |-> BOOLEAN, w]
RECURSIVE CondsOf(_, _, _, _, _, _, _), ArmOf(_, _, _, _, _, _)
CondValue(cx, cond, env, w, dbg) ==
  LET r == IF IsLazy(cx.c) THEN EvalEager(cx, cond.value, env, w, dbg) ELSE Eval(cx, cond.value, env, w) IN
  IF ~r.ok THEN r
  ELSE CASE cond.k = "some" -> Ok(r.v.t # "null", r.w)
         [] cond.k = "none" -> Ok(r.v.t = "null", r.w)
         [] cond.k = "bool" -> IF r.v.t # "bool" THEN Err("ExpectedBoolean", r.w) ELSE Ok(r.v.b, r.w)
CondsOf(cx, conds, i, env, w, dbg, acc) ==
  IF i > Len(conds) THEN Ok(acc, w)
  ELSE LET r == CondValue(cx, conds[i], env, w, dbg) IN
       IF ~r.ok THEN r ELSE CondsOf(cx, conds, i + 1, env, r.w, dbg, acc /\ r.v)
\* index of the first arm whose conditions all hold (0 = none): [ok, v |-> index, w]
ArmOf(cx, arms, i, env, w, dbg) ==
  IF i > Len(arms) THEN Ok(0, w)
  ELSE LET r == CondsOf(cx, arms[i].conds, 1, env, w, dbg, TRUE) IN
       IF ~r.ok THEN r ELSE IF r.v THEN Ok(i, r.w) ELSE ArmOf(cx, arms, i + 1, env, r.w, dbg)

\* ---------------------------------------------------------------- one scan iteration
\* candidates of all arms at position pos; [ok, v |-> [arm, s, e, g] or [arm |-> 0], w]
RECURSIVE ScanArms(_, _, _, _, _, _, _)
ScanArms(cx, arms, j, subj, pos, w, best) ==
  IF j > Len(arms) THEN Ok(best, w)
  ELSE LET w0 == IF IsLazy(cx.c) THEN Poll(w, "processing scan matches") ELSE w IN
    IF w0.cancel THEN Err("Cancelled", w0)
    ELSE LET t == RegexTab(cx, arms[j].re, subj) IN
      IF ~t.found THEN Err("Unsupported", [w0 EXCEPT !.unsup = <<[re |-> arms[j].re, subj |-> subj]>>])
      ELSE LET row == t.tab[pos + 1] IN
        IF ~row.m THEN ScanArms(cx, arms, j + 1, subj, pos, w0, best)
        ELSE IF row.s = row.e THEN Err("EmptyRegexCapture", w0)
        ELSE IF best.arm = 0 \/ row.s < best.s
             THEN ScanArms(cx, arms, j + 1, subj, pos, w0, [arm |-> j, s |-> row.s, e |-> row.e, g |-> row.g])
             ELSE ScanArms(cx, arms, j + 1, subj, pos, w0, best)

\* ---------------------------------------------------------------- deferred statements (lazy evaluation phase)
AsGnOther(r) == WithCtx(AsGn(r), OtherCtx)

RECURSIVE DeferredAttrs(_, _, _, _, _, _)
\* attributes of one deferred attr statement; tgt as in AddAttrStrict
DeferredAttrs(cx, d, i, w, tgt, dummy) ==
  IF i > Len(d.attrs) THEN Ok(VNull, w)
  ELSE LET a == d.attrs[i]
           rv == Force(cx, a.lz, w)
       IN IF ~rv.ok THEN rv
          ELSE IF tgt.on = "edge" /\ ~HasEdge(rv.w.g, tgt.src, tgt.dst) THEN Err("UndefinedEdge", rv.w)
          ELSE LET key == <<tgt.on, tgt.src, IF tgt.on = "edge" THEN tgt.dst ELSE -1, a.name>>
                   prev == IF key \in DOMAIN rv.w.pd THEN <<rv.w.pd[key]>> ELSE <<>>
                   w1 == [rv.w EXCEPT !.pd = MapPut(@, key, d.dbg)]
                   r == AddAttrStrict(tgt, a.name, rv.v, w1)
               IN IF ~r.ok THEN
                     (IF r.e.kind = "DuplicateAttribute"
                      THEN WithCtx(r, IF prev = <<>> THEN StmtCtx(d.dbg) ELSE StmtCtx2(prev[1], d.dbg))
                      ELSE r)
                  ELSE DeferredAttrs(cx, d, i + 1, r.w, tgt, dummy)

RECURSIVE DeferredPrint(_, _, _, _)
DeferredPrint(cx, args, i, w) ==
  IF i > Len(args) THEN Ok(VNull, w)
  ELSE IF args[i].txt THEN DeferredPrint(cx, args, i + 1, w)
  ELSE LET r == Force(cx, args[i].lz, w) IN
       IF ~r.ok THEN r ELSE DeferredPrint(cx, args, i + 1, NoteText("print", <<r.v>>, r.w))

EvalDeferred(cx, d, w) ==
  LET w0 == Poll(w, "evaluating statement") IN
  IF w0.cancel THEN Err("Cancelled", w0)
  ELSE LET w1 == Emit(w0, [e |-> "lstmt", k |-> d.k, row |-> d.dbg.sl[1], col |-> d.dbg.sl[2]])
           r == CASE d.k = "edge" ->
                       LET r1 == AsGnOther(Force(cx, d.src, w1)) IN
                       IF ~r1.ok THEN r1
                       ELSE LET r2 == AsGnOther(Force(cx, d.dst, r1.w)) IN
                         IF ~r2.ok THEN r2
                         ELSE LET i == r1.v.g  j == r2.v.g  new == ~HasEdge(r2.w.g, i, j) IN
                              Ok(VNull, Emit([r2.w EXCEPT !.g = AddEdge(@, i, j, d.at)],
                                             [e |-> "edge", src |-> i, dst |-> j, new |-> new]))
                  [] d.k = "attrn" ->
                       LET r1 == AsGnOther(Force(cx, d.node, w1)) IN
                       IF ~r1.ok THEN r1
                       ELSE DeferredAttrs(cx, d, 1, r1.w, [on |-> "node", src |-> r1.v.g], 0)
                  [] d.k = "attre" ->
                       LET r1 == AsGnOther(Force(cx, d.src, w1)) IN
                       IF ~r1.ok THEN r1
                       ELSE LET r2 == AsGnOther(Force(cx, d.dst, r1.w)) IN
                         IF ~r2.ok THEN r2
                         ELSE DeferredAttrs(cx, d, 1, r2.w, [on |-> "edge", src |-> r1.v.g, dst |-> r2.v.g], 0)
                  [] d.k = "print" -> DeferredPrint(cx, d.args, 1, w1)
       IN WithCtx(r, StmtCtx(d.dbg))

\* store.evaluate_all: thunks i.. in creation order (no "force" event, the thunk is forced directly)
RECURSIVE ForceAllThunks(_, _, _)
ForceAllThunks(cx, i, w) ==
  IF i > Len(w.store) THEN Ok(VNull, w)
  ELSE LET th == w.store[i] IN
    IF th.st = "forced" THEN ForceAllThunks(cx, i + 1, w)
    ELSE IF th.st = "forcing" THEN WithCtx(Err("RecursivelyDefinedVariable", w), StmtCtx(th.dbg))
    ELSE LET r == Force(cx, th.lz, [w EXCEPT !.store[i].st = "forcing"]) IN
         IF ~r.ok THEN WithCtx(r, StmtCtx(th.dbg))
         ELSE ForceAllThunks(cx, i + 1, [r.w EXCEPT !.store[i] = [st |-> "forced", lz |-> LVal(r.v), v |-> r.v, dbg |-> th.dbg]])

\* scoped_store.evaluate_all: every name, in sorted order (cx.c.svnames lists the file's scoped names sorted)
RECURSIVE ForceAllScoped(_, _, _)
ForceAllScoped(cx, names, w) ==
  IF names = {} THEN Ok(VNull, w)
  ELSE LET Pos(x) == CHOOSE i \in 1..Len(cx.c.svnames) : cx.c.svnames[i] = x
           nm == CHOOSE x \in names : \A y \in names : Pos(x) <= Pos(y)
           r == ForceScopedName(cx, nm, w)
           rest == names \ {nm}
       IN IF ~r.ok THEN r ELSE ForceAllScoped(cx, rest, r.w)

\* ================================================================== the machine
NoLoc == <<-1, -1>>

InitWorld(c, g0) ==
  [g |-> g0, ev |-> <<>>, np |-> 0, ca |-> c.cancel_at, cancel |-> FALSE,
   sc |-> [x \in {} |-> 0], store |-> <<>>, ss |-> [x \in {} |-> 0],
   q |-> [edge |-> <<>>, attr |-> <<>>, print |-> <<>>], pd |-> [x \in {} |-> 0], unsup |-> <<>>, gntext |-> FALSE]

InitState(c, g0) ==
  [ph |-> "init", w |-> InitWorld(c, g0), ctl |-> <<>>, caps |-> [x \in {} |-> 0],
   cur |-> [st |-> NoLoc, nk |-> "", np |-> NoLoc, root |-> 0], si |-> 1, mi |-> 1, li |-> 1, qi |-> 1,
   status |-> "run", err |-> [kind |-> "", chain |-> <<>>], glob |-> [x \in {} |-> 0], steps |-> 0,
   adm |-> {}, begun |-> <<>>]

\* effective globals (check_globals): [ok, glob] | [ok |-> FALSE, kind]
RECURSIVE CheckGlobals(_, _, _)
CheckGlobals(c, i, glob) ==
  IF i > Len(c.prog.globals) THEN [ok |-> TRUE, glob |-> glob]
  ELSE LET d == c.prog.globals[i] IN
    IF d.name \in DOMAIN glob THEN
       IF d.q \in {"star", "plus"} /\ glob[d.name].t # "list" THEN [ok |-> FALSE, kind |-> "ExpectedList"]
       ELSE CheckGlobals(c, i + 1, glob)
    ELSE IF d.has_default THEN LET g1 == MapPut(glob, d.name, VStr(d.default)) IN CheckGlobals(c, i + 1, g1)
    ELSE [ok |-> FALSE, kind |-> "MissingGlobalVariable"]

SuppliedGlobals(c) == [n \in DOMAIN c.globals |-> FromJ(c.globals[n])]

\* capture values of a match, by quantifier
CapValues(minfo, m) ==
  [n \in {minfo.caps[i].name : i \in 1..Len(minfo.caps)} |->
     LET q == (CHOOSE i \in 1..Len(minfo.caps) : minfo.caps[i].name = n)
         qq == minfo.caps[q].q
         nodes == m.caps[n]
     IN CASE qq = "one" -> VSyn(nodes[1])
          [] qq = "opt" -> IF Len(nodes) = 0 THEN VNull ELSE VSyn(nodes[1])
          [] OTHER -> VList([i \in 1..Len(nodes) |-> VSyn(nodes[i])])]

Dbg(s, loc) == [sl |-> loc, st |-> s.cur.st, nk |-> s.cur.nk, np |-> s.cur.np]

BlockIdx(ctl) == SelectSeq([i \in 1..Len(ctl) |-> i], LAMBDA i : ctl[i].f = "block")

EnvOf(s) ==
  LET bi == BlockIdx(s.ctl)  top == s.ctl[bi[Len(bi)]] IN
  [fr |-> [j \in 1..Len(bi) |-> s.ctl[bi[j]].vars], caps |-> s.caps, rc |-> top.rc, inscan |-> top.inscan]

WriteBack(ctl, fr) ==
  [i \in 1..Len(ctl) |->
     IF ctl[i].f = "block" THEN [ctl[i] EXCEPT !.vars = fr[Cardinality({j \in 1..i : ctl[j].f = "block"})]]
     ELSE ctl[i]]

\* location of the statement being executed at the innermost block
CurLoc(ctl) == LET bi == BlockIdx(ctl) IN ctl[bi[Len(bi)]].cl

\* contexts added while an error propagates out of the control stack (innermost first)
RECURSIVE Unwind(_, _, _, _)
Unwind(s, ctl, i, e) ==
  IF i = 0 THEN e
  ELSE LET b == ctl[i] IN
    IF b.f # "block" THEN Unwind(s, ctl, i - 1, e)
    ELSE LET d == StmtCtx(Dbg(s, b.cl))
             e1 == CASE b.wrap = "scan" -> Wrap(Wrap(e, OtherCtx), d)
                     [] b.wrap = "stmt" -> Wrap(e, d)
                     [] OTHER -> e
         IN Unwind(s, ctl, i - 1, e1)

Finish(s, w, status) == [s EXCEPT !.w = w, !.status = status, !.ph = "done", !.ctl = <<>>]

\* an error raised while the control stack is `ctl`
\* adm: the locations a report of this failure may cite as "the failing statement": the statements being
\* executed at every block level (innermost = the failing one, the others enclose it) and the statements
\* named by the contexts attached during lazy evaluation
Fail(s, w, e, ctl) ==
  LET e1 == Unwind(s, ctl, Len(ctl), e)
      encl == {ctl[i].cl : i \in {j \in 1..Len(ctl) : ctl[j].f = "block"}}
      cited == UNION {{e1.chain[i].stmts[j].sl : j \in 1..Len(e1.chain[i].stmts)} :
                        i \in {k \in 1..Len(e1.chain) : e1.chain[k].ck = "stmt"}}
  IN
  [s EXCEPT !.w = w, !.ph = "done", !.ctl = <<>>, !.err = e1, !.adm = encl \cup cited,
            !.status = IF e1.kind = "Cancelled" THEN "cancelled" ELSE "err"]

NewBlock(stmts, vars, rc, inscan, wrap) ==
  [f |-> "block", stmts |-> stmts, pc |-> 1, vars |-> vars, rc |-> rc, inscan |-> inscan, wrap |-> wrap, cl |-> NoLoc]

NestedWrap(c) == IF IsLazy(c) THEN "none" ELSE "stmt"

\* ---- step: check globals
StepInit(c, tr, s) ==
  LET r == CheckGlobals(c, 1, SuppliedGlobals(c)) IN
  IF ~r.ok THEN Fail(s, s.w, [kind |-> r.kind, chain |-> <<>>], <<>>)
  ELSE [s EXCEPT !.glob = r.glob, !.ph = "matches"]

\* ---- step: begin the next match, or leave the match phase
NextMatch(c, s) ==   \* <<si, mi>> of the next match to run, or <<0, 0>>
  IF IsLazy(c) THEN (IF s.li > Len(c.lorder) THEN <<0, 0>> ELSE <<c.lorder[s.li][1], c.lorder[s.li][2]>>)
  ELSE LET S == {i \in s.si..Len(c.matches) : Len(c.matches[i].ms) >= (IF i = s.si THEN s.mi ELSE 1)} IN
       IF S = {} THEN <<0, 0>>
       ELSE LET i == CHOOSE x \in S : \A y \in S : x <= y IN <<i, IF i = s.si THEN s.mi ELSE 1>>

StepBeginMatch(c, tr, s) ==
  LET nm == NextMatch(c, s) IN
  IF nm[1] = 0 THEN
     (IF IsLazy(c) THEN [s EXCEPT !.ph = "edges", !.qi = 1] ELSE Finish(s, s.w, "ok"))
  ELSE LET w0 == IF IsLazy(c) THEN Poll(s.w, "processing matches") ELSE s.w IN
    IF w0.cancel THEN Fail(s, w0, [kind |-> "Cancelled", chain |-> <<>>], <<>>)
    ELSE LET si == nm[1]  mi == nm[2]
             stz == c.prog.stanzas[si]
             m == c.matches[si].ms[mi]
             w1 == Emit(w0, [e |-> "match", row |-> stz.loc[1], col |-> stz.loc[2], root |-> m.root])
         IN [s EXCEPT !.w = w1,
                      !.ctl = <<NewBlock(stz.stmts, EmptyMap, <<>>, FALSE, "stmt")>>,
                      !.caps = CapValues(c.matches[si], m),
                      !.cur = [st |-> stz.loc, nk |-> tr[m.root].kind, np |-> <<tr[m.root].sr, tr[m.root].sc>>, root |-> m.root],
                      !.si = si, !.mi = mi + 1, !.li = s.li + 1, !.begun = Append(@, <<si, mi>>)]

\* ---- step: a block frame on top
StepBlock(c, tr, s) ==
  LET top == Len(s.ctl)  b == s.ctl[top]  cx == Cx(c, tr, s.glob) IN
  IF b.pc > Len(b.stmts) THEN [s EXCEPT !.ctl = SubSeq(@, 1, top - 1)]
  ELSE
    LET st == b.stmts[b.pc]
        ctl1 == [s.ctl EXCEPT ![top].cl = st.loc, ![top].pc = b.pc + 1]
        s1 == [s EXCEPT !.ctl = ctl1]
        w0 == Poll(s.w, "executing statement")
    IN IF w0.cancel THEN Fail(s1, w0, [kind |-> "Cancelled", chain |-> <<>>], ctl1)
       ELSE
         LET w1 == Emit(w0, [e |-> "stmt", row |-> st.loc[1], col |-> st.loc[2]])
             env == EnvOf(s1)
             dbg == Dbg(s1, st.loc)
         IN CASE st.k \in {"let", "var", "set", "node", "edge", "attrn", "attre", "print"} ->
                   LET r == IF IsLazy(c) THEN SimpleLazy(cx, st, env, w1, s.cur.root, dbg)
                            ELSE SimpleStrict(cx, st, env, w1, s.cur.root) IN
                   IF ~r.ok THEN Fail(s1, r.w, r.e, ctl1)
                   ELSE [s1 EXCEPT !.w = r.w, !.ctl = WriteBack(ctl1, r.fr)]
              [] st.k = "if" ->
                   LET r == ArmOf(cx, st.arms, 1, env, w1, dbg) IN
                   IF ~r.ok THEN Fail(s1, r.w, r.e, ctl1)
                   ELSE IF r.v = 0 THEN [s1 EXCEPT !.w = r.w]
                   ELSE [s1 EXCEPT !.w = r.w,
                                   !.ctl = Append(ctl1, NewBlock(st.arms[r.v].stmts, EmptyMap, b.rc, b.inscan, NestedWrap(c)))]
              [] st.k = "for" ->
                   LET r == IF IsLazy(c) THEN EvalEager(cx, st.value, env, w1, dbg) ELSE Eval(cx, st.value, env, w1) IN
                   IF ~r.ok THEN Fail(s1, r.w, r.e, ctl1)
                   ELSE IF r.v.t # "list" THEN Fail(s1, r.w, [kind |-> "ExpectedList", chain |-> <<>>], ctl1)
                   ELSE [s1 EXCEPT !.w = r.w,
                                   !.ctl = Append(ctl1, [f |-> "for", var |-> st.var.name, items |-> r.v.l, i |-> 1,
                                                         stmts |-> st.stmts, rc |-> b.rc, inscan |-> b.inscan])]
              [] st.k = "scan" ->
                   LET r == IF IsLazy(c) THEN EvalEager(cx, st.value, env, w1, dbg) ELSE Eval(cx, st.value, env, w1) IN
                   IF ~r.ok THEN Fail(s1, r.w, r.e, ctl1)
                   ELSE IF r.v.t # "str" THEN Fail(s1, r.w, [kind |-> "ExpectedString", chain |-> <<>>], ctl1)
                   ELSE [s1 EXCEPT !.w = r.w,
                                   !.ctl = Append(ctl1, [f |-> "scan", subj |-> r.v.s, pos |-> 0, arms |-> st.arms])]

\* ---- step: a for frame on top: next element or end of loop
StepFor(c, tr, s) ==
  LET top == Len(s.ctl)  f == s.ctl[top]  cx == Cx(c, tr, s.glob) IN
  IF f.i > Len(f.items) THEN [s EXCEPT !.ctl = SubSeq(@, 1, top - 1)]
  ELSE LET below == SubSeq(s.ctl, 1, top - 1)
           ctl1 == [s.ctl EXCEPT ![top].i = f.i + 1]
       IN IF f.var \in DOMAIN s.glob THEN Fail(s, s.w, [kind |-> "DuplicateVariable", chain |-> <<>>], below)
          ELSE IF IsLazy(c) THEN
             LET a == StoreAdd(s.w, LVal(f.items[f.i]), Dbg(s, CurLoc(below))) IN
             [s EXCEPT !.w = a.w,
                       !.ctl = Append(ctl1, NewBlock(f.stmts, (f.var :> [v |-> LVar(a.i), m |-> FALSE]), f.rc, f.inscan, "none"))]
          ELSE [s EXCEPT !.ctl = Append(ctl1, NewBlock(f.stmts, (f.var :> [v |-> f.items[f.i], m |-> FALSE]), f.rc, f.inscan, "stmt"))]

\* ---- step: a scan frame on top: next iteration or end of scan
StepScan(c, tr, s) ==
  LET top == Len(s.ctl)  f == s.ctl[top]  cx == Cx(c, tr, s.glob)
      below == SubSeq(s.ctl, 1, top - 1)
  IN IF f.pos >= Len(f.subj) THEN [s EXCEPT !.ctl = below]
     ELSE LET w0 == IF IsLazy(c) THEN s.w ELSE Poll(s.w, "processing scan matches") IN
       IF w0.cancel THEN Fail(s, w0, [kind |-> "Cancelled", chain |-> <<>>], below)
       ELSE LET r == ScanArms(cx, f.arms, 1, f.subj, f.pos, w0, [arm |-> 0, s |-> 0, e |-> 0, g |-> <<>>]) IN
         IF ~r.ok THEN Fail(s, r.w, r.e, below)
         ELSE IF r.v.arm = 0 THEN [s EXCEPT !.w = r.w, !.ctl = below]
         ELSE [s EXCEPT !.w = r.w,
                        !.ctl = Append([s.ctl EXCEPT ![top].pos = f.pos + r.v.e],
                                       NewBlock(f.arms[r.v.arm].stmts, EmptyMap, r.v.g, TRUE, "scan"))]

\* ---- steps of the lazy evaluation phase
StepDeferred(c, tr, s, qn, nextph) ==
  LET cx == Cx(c, tr, s.glob) IN
  IF s.qi > Len(s.w.q[qn]) THEN [s EXCEPT !.ph = nextph, !.qi = 1]
  ELSE LET r == EvalDeferred(cx, s.w.q[qn][s.qi], s.w) IN
       IF ~r.ok THEN Fail(s, r.w, r.e, <<>>) ELSE [s EXCEPT !.w = r.w, !.qi = s.qi + 1]

StepStore(c, tr, s) ==
  LET cx == Cx(c, tr, s.glob)
      w1 == Emit(s.w, [e |-> "forceall", n |-> Len(s.w.store)])
      r == ForceAllThunks(cx, 1, w1)
  IN IF ~r.ok THEN Fail(s, r.w, r.e, <<>>) ELSE [s EXCEPT !.w = r.w, !.ph = "scoped"]

StepScoped(c, tr, s) ==
  LET cx == Cx(c, tr, s.glob)
      w1 == Emit(s.w, [e |-> "sforceall", n |-> Cardinality(DOMAIN s.w.ss)])
      r == ForceAllScoped(cx, DOMAIN s.w.ss, w1)
  IN IF ~r.ok THEN Fail(s, r.w, r.e, <<>>) ELSE Finish(s, r.w, "ok")

\* kind of the next step (names the action)
StepKind(c, s) ==
  IF s.ph = "matches" THEN
     (IF s.ctl = <<>> THEN "BeginMatch"
      ELSE LET t == s.ctl[Len(s.ctl)] IN
           IF t.f = "for" THEN "ForIter" ELSE IF t.f = "scan" THEN "ScanIter"
           ELSE IF t.pc > Len(t.stmts) THEN "BlockEnd" ELSE t.stmts[t.pc].k)
  ELSE s.ph

Step(c, tr, s) ==
  LET s0 == [s EXCEPT !.w.ev = <<>>, !.steps = s.steps + 1] IN
  CASE s.ph = "init" -> StepInit(c, tr, s0)
    [] s.ph = "matches" ->
         (IF s.ctl = <<>> THEN StepBeginMatch(c, tr, s0)
          ELSE LET t == s.ctl[Len(s.ctl)] IN
               IF t.f = "for" THEN StepFor(c, tr, s0)
               ELSE IF t.f = "scan" THEN StepScan(c, tr, s0)
               ELSE StepBlock(c, tr, s0))
    [] s.ph = "edges"  -> StepDeferred(c, tr, s0, "edge", "attrs")
    [] s.ph = "attrs"  -> StepDeferred(c, tr, s0, "attr", "prints")
    [] s.ph = "prints" -> StepDeferred(c, tr, s0, "print", "store")
    [] s.ph = "store"  -> StepStore(c, tr, s0)
    [] s.ph = "scoped" -> StepScoped(c, tr, s0)

=============================================================================
