---------------------------- MODULE MCContainers ----------------------------
(***************************************************************************)
(* Property C17: the public containers (Graph, GraphNode, Attributes,      *)
(* Variables) against plain map/set models.  The graph operations are the  *)
(* operators the interpreters' machine itself uses (TSGValues!AddEdge,     *)
(* AddGraphNode, ...), so the edge list is a SEQUENCE kept sorted by       *)
(* insertion, and "strictly ascending" is something to check.  A ghost set *)
(* `added` records which edges were added.  Every action records its       *)
(* return value; whole call sequences are printed for replay on the real   *)
(* objects.                                                                *)
(***************************************************************************)
EXTENDS TSGValues, Json

CONSTANTS MaxNodes, MaxLen, PreNodes, MaxSrc

Names == {"a", "b"}
Vals == {VSmall(1), VSmall(2), VStr("x"), VNull, VList(<<VSmall(1)>>)}

VARIABLES g, added, outer, inner, phase, hist
vars == <<g, added, outer, inner, phase, hist>>

RECURSIVE Pre(_)
Pre(n) == IF n = 0 THEN EmptyGraph ELSE AddGraphNode(Pre(n - 1))
\* PreNodes nodes are created first (their add_node calls are part of the recorded sequence)
Init == /\ g = Pre(PreNodes) /\ added = {} /\ outer = EmptyMap /\ inner = EmptyMap /\ phase = "outer"
        /\ hist = [k \in 1..PreNodes |-> [op |-> "add_node", args |-> <<>>, ret |-> VSmall(k - 1)]]

Rec(op, args, ret) == hist' = Append(hist, [op |-> op, args |-> args, ret |-> ret])
Nodes == 0..(g.n - 1)
Srcs == {i \in Nodes : i < MaxSrc}    \* nodes used as edge sources (concentrates edges in simulation)
Active == Len(hist) < MaxLen

AddNodeOp == Active /\ g.n < MaxNodes /\ g' = AddGraphNode(g) /\ Rec("add_node", <<>>, VSmall(g.n)) /\ UNCHANGED <<added, outer, inner, phase>>
AddEdgeOp == Active /\ \E i \in Srcs, j \in Nodes :
  /\ g' = AddEdge(g, i, j, EmptyMap) /\ added' = added \cup {<<i, j>>}
  /\ Rec("add_edge", <<i, j>>, VStr(IF HasEdge(g, i, j) THEN "existing" ELSE "new"))
  /\ UNCHANGED <<outer, inner, phase>>
GetEdgeOp == Active /\ \E i \in Srcs, j \in Nodes : \E mutable \in BOOLEAN :
  /\ Rec(IF mutable THEN "get_edge_mut" ELSE "get_edge", <<i, j>>, VBool(HasEdge(g, i, j)))
  /\ UNCHANGED <<g, added, outer, inner, phase>>
\* Attributes::add: a different value is a conflict; the documented behaviour replaces the value and returns the old one
AttrNodeOp == Active /\ \E i \in Nodes, nm \in Names, v \in Vals :
  LET m == g.na[i + 1] IN
  /\ g' = [g EXCEPT !.na[i + 1] = MapPut(m, nm, v)]
  /\ Rec("attr_node", <<i, nm, v>>, IF nm \in DOMAIN m /\ m[nm] # v THEN [t |-> "conflict", old |-> m[nm]] ELSE VStr("ok"))
  /\ UNCHANGED <<added, outer, inner, phase>>
AttrEdgeOp == Active /\ \E i \in Srcs, j \in Nodes, nm \in Names, v \in Vals :
  /\ HasEdge(g, i, j)
  /\ LET m == EdgeAttrs(g, i, j) IN
     /\ g' = SetEdgeAttrs(g, i, j, MapPut(m, nm, v))
     /\ Rec("attr_edge", <<i, j, nm, v>>, IF nm \in DOMAIN m /\ m[nm] # v THEN [t |-> "conflict", old |-> m[nm]] ELSE VStr("ok"))
  /\ UNCHANGED <<added, outer, inner, phase>>
AttrGetOp == Active /\ \E i \in Nodes, nm \in Names :
  /\ Rec("attr_get", <<i, nm>>, IF nm \in DOMAIN g.na[i + 1] THEN g.na[i + 1][nm] ELSE VStr("<none>"))
  /\ UNCHANGED <<g, added, outer, inner, phase>>
IterOp == Active /\ \E i \in Nodes :
  /\ Rec("iter_edges", <<i>>, VList([p \in 1..Len(g.out[i + 1]) |-> VSmall(g.out[i + 1][p].sink)]))
  /\ UNCHANGED <<g, added, outer, inner, phase>>
CountOp == Active /\ Rec("node_count", <<>>, VSmall(g.n)) /\ UNCHANGED <<g, added, outer, inner, phase>>

\* variable sets: first the outer set, then (after Nest) a nested set that borrows it
VarAddOp == Active /\ \E nm \in Names, v \in Vals :
  /\ IF phase = "outer"
     THEN outer' = (IF nm \in DOMAIN outer THEN outer ELSE MapPut(outer, nm, v)) /\ UNCHANGED inner
          /\ Rec("var_add", <<nm, v>>, VStr(IF nm \in DOMAIN outer THEN "exists" ELSE "ok"))
     ELSE inner' = (IF nm \in DOMAIN inner THEN inner ELSE MapPut(inner, nm, v)) /\ UNCHANGED outer
          /\ Rec("var_add", <<nm, v>>, VStr(IF nm \in DOMAIN inner THEN "exists" ELSE "ok"))
  /\ UNCHANGED <<g, added, phase>>
Lookup(nm) == IF phase = "inner" /\ nm \in DOMAIN inner THEN inner[nm] ELSE IF nm \in DOMAIN outer THEN outer[nm] ELSE VStr("<none>")
VarGetOp == Active /\ \E nm \in Names : Rec("var_get", <<nm>>, Lookup(nm)) /\ UNCHANGED <<g, added, outer, inner, phase>>
VarRemoveOp == Active /\ \E nm \in Names :
  /\ IF phase = "outer" THEN outer' = [x \in (DOMAIN outer) \ {nm} |-> outer[x]] /\ UNCHANGED inner
     ELSE inner' = [x \in (DOMAIN inner) \ {nm} |-> inner[x]] /\ UNCHANGED outer
  /\ Rec("var_remove", <<nm>>, VNull) /\ UNCHANGED <<g, added, phase>>
VarClearOp == Active /\ (IF phase = "outer" THEN outer' = EmptyMap /\ UNCHANGED inner ELSE inner' = EmptyMap /\ UNCHANGED outer)
  /\ Rec("var_clear", <<>>, VNull) /\ UNCHANGED <<g, added, phase>>
NestOp == Active /\ phase = "outer" /\ phase' = "inner" /\ Rec("nest", <<>>, VNull) /\ UNCHANGED <<g, added, outer, inner>>

Next == AddNodeOp \/ AddEdgeOp \/ GetEdgeOp \/ AttrNodeOp \/ AttrEdgeOp \/ AttrGetOp \/ IterOp \/ CountOp
        \/ VarAddOp \/ VarGetOp \/ VarRemoveOp \/ VarClearOp \/ NestOp
Spec == Init /\ [][Next]_vars

\* ---- the map/set model
OutSorted == \A i \in 1..g.n : \A p \in 1..(Len(g.out[i]) - 1) : g.out[i][p].sink < g.out[i][p + 1].sink
DenseIndices == Len(g.na) = g.n /\ Len(g.out) = g.n
LookupIffAdded == \A i, j \in Nodes : HasEdge(g, i, j) <=> <<i, j>> \in added
EdgeCountIsSetSize == \A i \in Nodes : Len(g.out[i + 1]) = Cardinality({e \in added : e[1] = i})
NestedNeverWritesOuter == [][phase = "inner" => outer' = outer]_vars
ReturnOfAddEdge ==
  \A k \in 1..Len(hist) : hist[k].op = "add_edge" =>
     (hist[k].ret = VStr("existing") <=> \E m \in 1..(k - 1) : hist[m].op = "add_edge" /\ hist[m].args = hist[k].args)

Final == [hist |-> hist, outer |-> outer, n |-> g.n,
          edges |-> [i \in 1..g.n |-> [p \in 1..Len(g.out[i]) |-> g.out[i][p].sink]]]
Replay == Len(hist) = MaxLen => PrintT(<<"REPLAY", ToJson(Final)>>)
=============================================================================
