---------------------------- MODULE TraceExec ----------------------------
(***************************************************************************)
(* Trace validation (direction code -> spec) of executions of the real     *)
(* library.  Every case in CASES carries the inputs (program AST with      *)
(* locations, tree, matches and regex tables from the trusted oracle,      *)
(* globals, mode, configuration, cancellation point) and the event trace   *)
(* recorded by the hooks; a case may continue with `next` runs that        *)
(* execute into the same graph (execute_into histories).  The machine of   *)
(* TSGExec is run on the same inputs; each step's events are matched       *)
(* against the recorded trace (mechanism level), the property invariants   *)
(* are evaluated in every state, an observed state is folded from the      *)
(* recorded events alone, and the expected outcome is printed for the      *)
(* driver, which compares it with the real outcome at property level.      *)
(***************************************************************************)
EXTENDS TSGExec, TSGStatic, Json, IOUtils

Cases == ndJsonDeserialize(IOEnv.CASES)
Trees == JsonDeserialize(IOEnv.TREES)

VARIABLES ci,     \* index of the case this behaviour validates
          ri,     \* index of the run within the case (execute_into history)
          s,      \* machine state
          l,      \* number of recorded events matched so far
          drift,  \* 0, or the 1-based position of the first recorded event the machine disagrees with
          dexp,   \* the machine's event at that position (<<>> if the machine emitted none there)
          facts,  \* scoped-variable resolution facts (sget events) emitted by the machine in this run
          pollsby,\* polls of the machine in this run, by label
          obs,    \* observed state folded from the RECORDED events of the earlier runs of this case
          taken   \* how often each action of the machine was taken in this run (vacuity control, reported)

vars == <<ci, ri, s, l, drift, dexp, facts, pollsby, obs, taken>>

StepKinds == {"init", "BeginMatch", "ForIter", "ScanIter", "BlockEnd", "let", "var", "set", "node", "edge",
              "attrn", "attre", "print", "if", "for", "scan", "edges", "attrs", "prints", "store", "scoped"}

RECURSIVE RunOf(_, _)
RunOf(c, r) == IF r = 1 THEN c ELSE RunOf(c.next, r - 1)

Run == RunOf(Cases[ci], ri)
Tree == Trees[Cases[ci].src].nodes
HasNext == "next" \in DOMAIN Run

RecEv(c, i) ==
  LET r == c.events[i] IN IF r.e = "attr" THEN [r EXCEPT !.val = FromJ(@)] ELSE r

\* position (1-based, in the recorded trace) of the first disagreement between chunk and c.events[l0+1..], 0 if none
FirstMismatch(c, chunk, l0) ==
  LET n == Len(chunk)
      bad == {k \in 1..n : \/ l0 + k > Len(c.events)
                           \/ c.events[l0 + k].e # chunk[k].e
                           \/ RecEv(c, l0 + k) # chunk[k]}
  IN IF bad = {} THEN 0 ELSE l0 + (CHOOSE k \in bad : \A j \in bad : k <= j)

RECURSIVE AllRunnable(_)
AllRunnable(c) ==
  /\ "outcome" \in DOMAIN c /\ "skip" \notin DOMAIN c
  /\ c.outcome.status \notin {"load_err", "load_panic"}
  /\ ("next" \in DOMAIN c => AllRunnable(c.next))

\* ------------------------------------------------------------ observed state (from recorded events only)
ObsInit == [n |-> 0, dense |-> TRUE, edges |-> {}, newok |-> TRUE, at |-> [x \in {} |-> 0],
            conflict |-> FALSE, dangling |-> FALSE]
ObsStep(o, ev) ==
  CASE ev.e = "gnode" -> [o EXCEPT !.dense = @ /\ ev.id = o.n, !.n = @ + 1]
    [] ev.e = "edge" ->
         [o EXCEPT !.newok = @ /\ (ev.new = (<<ev.src, ev.dst>> \notin o.edges)),
                   !.edges = @ \cup {<<ev.src, ev.dst>>},
                   !.dangling = @ \/ ev.src >= o.n \/ ev.dst >= o.n]
    [] ev.e = "attr" ->
         LET key == <<ev.on, ev.src, ev.dst, ev.name>>  v == FromJ(ev.val) IN
         IF key \in DOMAIN o.at THEN [o EXCEPT !.conflict = @ \/ o.at[key] # v]
         ELSE [o EXCEPT !.at = MapPut(@, key, v),
                        !.dangling = @ \/ ev.src >= o.n \/ (ev.on = "edge" /\ <<ev.src, ev.dst>> \notin o.edges)]
    [] OTHER -> o
RECURSIVE ObsFold(_, _, _)
ObsFold(evs, i, o) == IF i > Len(evs) THEN o ELSE LET o1 == ObsStep(o, evs[i]) IN ObsFold(evs, i + 1, o1)

PollCount(chunk, pb) ==
  LET labels == {chunk[k].at : k \in {j \in 1..Len(chunk) : chunk[j].e = "poll"}} IN
  [x \in (DOMAIN pb) \cup labels |->
     (IF x \in DOMAIN pb THEN pb[x] ELSE 0) + Cardinality({k \in 1..Len(chunk) : chunk[k].e = "poll" /\ chunk[k].at = x})]

Init ==
  /\ ci \in {i \in 1..Len(Cases) : AllRunnable(Cases[i])}
  /\ ri = 1
  /\ s = InitState(Cases[ci], EmptyGraph)
  /\ l = 0
  /\ drift = 0
  /\ dexp = <<>>
  /\ facts = {}
  /\ pollsby = [x \in {} |-> 0]
  /\ obs = ObsInit
  /\ taken = [k \in StepKinds |-> 0]

Advance(kind) ==
  /\ s.status = "run"
  /\ StepKind(Run, s) = kind
  /\ s' = Step(Run, Tree, s)
  /\ l' = l + Len(s'.w.ev)
  /\ drift' = IF drift # 0 THEN drift ELSE FirstMismatch(Run, s'.w.ev, l)
  /\ dexp' = IF drift # 0 THEN dexp
             ELSE LET fm == FirstMismatch(Run, s'.w.ev, l) IN IF fm = 0 THEN <<>> ELSE <<s'.w.ev[fm - l]>>
  /\ facts' = facts \cup {s'.w.ev[k] : k \in {j \in 1..Len(s'.w.ev) : s'.w.ev[j].e = "sget"}}
  /\ pollsby' = PollCount(s'.w.ev, pollsby)
  /\ taken' = [taken EXCEPT ![kind] = @ + 1]
  /\ UNCHANGED <<ci, ri, obs>>

\* the next run of an execute_into history starts from the graph the previous run left behind
NextRun ==
  /\ s.status # "run"
  /\ HasNext
  /\ ri' = ri + 1
  /\ s' = InitState(Run.next, s.w.g)
  /\ l' = 0 /\ drift' = 0 /\ dexp' = <<>> /\ facts' = {} /\ pollsby' = [x \in {} |-> 0]
  /\ obs' = ObsFold(Run.events, 1, obs)
  /\ taken' = [k \in StepKinds |-> 0]
  /\ UNCHANGED ci

CheckGlobalsStep == Advance("init")
BeginMatch == Advance("BeginMatch")
ForIter == Advance("ForIter")
ScanIter == Advance("ScanIter")
BlockEnd == Advance("BlockEnd")
ExecLet == Advance("let")
ExecVar == Advance("var")
ExecSet == Advance("set")
ExecNode == Advance("node")
ExecEdge == Advance("edge")
ExecAttrNode == Advance("attrn")
ExecAttrEdge == Advance("attre")
ExecPrint == Advance("print")
ExecIf == Advance("if")
ExecFor == Advance("for")
ExecScan == Advance("scan")
LazyEvalEdge == Advance("edges")
LazyEvalAttr == Advance("attrs")
LazyEvalPrint == Advance("prints")
LazyForceStore == Advance("store")
LazyForceScoped == Advance("scoped")

Next ==
  \/ CheckGlobalsStep \/ BeginMatch \/ ForIter \/ ScanIter \/ BlockEnd
  \/ ExecLet \/ ExecVar \/ ExecSet \/ ExecNode \/ ExecEdge \/ ExecAttrNode \/ ExecAttrEdge \/ ExecPrint
  \/ ExecIf \/ ExecFor \/ ExecScan
  \/ LazyEvalEdge \/ LazyEvalAttr \/ LazyEvalPrint \/ LazyForceStore \/ LazyForceScoped
  \/ NextRun

Spec == Init /\ [][Next]_vars

\* ------------------------------------------------------------ invariants on the machine state
\* (C09) edge lists strictly ascending by sink: at most one edge per ordered pair
OutSorted ==
  \A i \in 1..s.w.g.n : \A p \in 1..(Len(s.w.g.out[i]) - 1) : s.w.g.out[i][p].sink < s.w.g.out[i][p + 1].sink
SinksExist == \A i \in 1..s.w.g.n : \A p \in 1..Len(s.w.g.out[i]) : s.w.g.out[i][p].sink < s.w.g.n
GraphShape == Len(s.w.g.na) = s.w.g.n /\ Len(s.w.g.out) = s.w.g.n
\* (C11) a cancellation is reported bare, never inside a context
CancelledIsBare == s.status = "cancelled" => s.err.chain = <<>>
\* (C11) polls never exceed the firing point
NoPollAfterFire == s.w.ca > 0 => s.w.np <= s.w.ca
\* (C01) termination bound
Bounded == s.steps <= 200000
\* (C08) nothing forces a scoped name while matches are still being collected
NoForceDuringCollect ==
  (Run.mode = "lazy" /\ s.ph = "matches") => \A x \in DOMAIN s.w.ss : s.w.ss[x].st = "unforced"
\* (C03) every match of every stanza begins exactly once (checked when the match phase is over)
ExactlyOncePerMatch ==
  (s.status = "ok" \/ s.ph \in {"edges", "attrs", "prints", "store", "scoped"}) =>
     /\ \A i \in 1..Len(Run.matches) : \A j \in 1..Len(Run.matches[i].ms) :
          Cardinality({k \in 1..Len(s.begun) : s.begun[k] = <<i, j>>}) = 1
     /\ \A k \in 1..Len(s.begun) : s.begun[k][1] \in 1..Len(Run.matches)
                                    /\ s.begun[k][2] \in 1..Len(Run.matches[s.begun[k][1]].ms)
\* (C01) blocks run stanza by stanza in file order and match by match in cursor order (strict); in the order of the
\* merged query (lazy)
BeginOrder ==
  IF Run.mode = "lazy" THEN \A k \in 1..Len(s.begun) : s.begun[k] = <<Run.lorder[k][1], Run.lorder[k][2]>>
  ELSE \A k \in 1..(Len(s.begun) - 1) :
         \/ s.begun[k][1] < s.begun[k + 1][1]
         \/ (s.begun[k][1] = s.begun[k + 1][1] /\ s.begun[k + 1][2] = s.begun[k][2] + 1)
\* (C01) local variables never survive a match: a match starts with one empty block
LocalsClearedPerMatch ==
  (s.ph = "matches" /\ Len(s.ctl) = 1 /\ s.ctl[1].pc = 1) => s.ctl[1].vars = EmptyMap
\* (C20) a failure inside a stanza always names the stanza, the matched node and a statement
ErrorHasContext ==
  (s.status = "err" /\ s.err.kind \notin {"MissingGlobalVariable", "ExpectedList", "Unsupported"}) =>
     \E i \in 1..Len(s.err.chain) : s.err.chain[i].ck = "stmt"

\* (C16) the effective globals: supplied values are never overridden, defaults apply exactly when nothing was
\* supplied, list-typed declarations hold lists; failures of the check are exactly the documented ones
Decls == Run.prog.globals
Supplied == SuppliedGlobals(Run)
GlobalsRule ==
  /\ (s.ph # "init" /\ s.steps >= 1 /\ ~(s.status = "err" /\ s.steps = 1)) =>
        /\ \A n \in DOMAIN Supplied : n \in DOMAIN s.glob /\ s.glob[n] = Supplied[n]
        /\ \A i \in 1..Len(Decls) :
             LET d == Decls[i] IN
             /\ d.name \in DOMAIN s.glob
             /\ (d.name \notin DOMAIN Supplied => d.has_default /\ s.glob[d.name] = VStr(d.default))
             /\ (d.q \in {"star", "plus"} /\ d.name \in DOMAIN Supplied => s.glob[d.name].t = "list")
  /\ (s.status = "err" /\ s.steps = 1) =>
        \/ s.err.kind = "MissingGlobalVariable"
             /\ \E i \in 1..Len(Decls) : Decls[i].name \notin DOMAIN Supplied /\ ~Decls[i].has_default
        \/ s.err.kind = "ExpectedList"
             /\ \E i \in 1..Len(Decls) : Decls[i].name \in DOMAIN Supplied /\ Decls[i].q \in {"star", "plus"}
                                          /\ Supplied[Decls[i].name].t # "list"

\* ------------------------------------------------------------ action properties
\* (C16) globals are read-only during a run
GlobalsReadOnly == [][(s.ph # "init" /\ ri' = ri) => s'.glob = s.glob]_vars
\* (C09) nodes, edges and attribute values only grow; values never change (single assignment)
AttrsStableStep ==
  (s.status = "run" /\ s'.status # "err" /\ ri' = ri) =>
    /\ s'.w.g.n >= s.w.g.n
    /\ \A i \in 1..s.w.g.n :
         /\ \A a \in DOMAIN s.w.g.na[i] : a \in DOMAIN s'.w.g.na[i] /\ s'.w.g.na[i][a] = s.w.g.na[i][a]
         /\ \A p \in 1..Len(s.w.g.out[i]) :
              LET j == s.w.g.out[i][p].sink IN
              /\ HasEdge(s'.w.g, i - 1, j)
              /\ \A a \in DOMAIN s.w.g.out[i][p].at :
                   a \in DOMAIN EdgeAttrs(s'.w.g, i - 1, j) /\ EdgeAttrs(s'.w.g, i - 1, j)[a] = s.w.g.out[i][p].at[a]
AttrsStable == [][AttrsStableStep]_vars
\* (C09) a following run starts from exactly the graph the previous one left
HistoryKeepsGraph == [][ri' # ri => s'.w.g = s.w.g]_vars
\* (C11) terminal states are absorbing within a run
TerminalAbsorbing == [][s.status # "run" => ri' = ri + 1]_vars

\* ------------------------------------------------------------ report
FinalObs == ObsFold(Run.events, 1, obs)
Report ==
  [id |-> Run.id, status |-> IF s.w.unsup # <<>> THEN "unsupported" ELSE s.status, missing |-> s.w.unsup,
   kind |-> s.err.kind, chain |-> s.err.chain, adm |-> s.adm, g |-> s.w.g, drift |-> drift, dexp |-> dexp,
   matched |-> l, recorded |-> Len(Run.events), steps |-> s.steps, polls |-> s.w.np, pollsby |-> pollsby,
   frag |-> InFragment(Run.prog), gntext |-> s.w.gntext, taken |-> taken, facts |-> facts, begun |-> s.begun, glob |-> s.glob,
   obs |-> [n |-> FinalObs.n, dense |-> FinalObs.dense, newok |-> FinalObs.newok, conflict |-> FinalObs.conflict,
            dangling |-> FinalObs.dangling, nedges |-> Cardinality(FinalObs.edges)]]

Reported == s.status # "run" => PrintT(<<"RESULT", ToJson(Report)>>)

=============================================================================
