---------------------------- MODULE TraceExec ----------------------------
(***************************************************************************)
(* Trace validation (direction code -> spec) of executions of the real     *)
(* library.  Every case in CASES carries the inputs (program AST with      *)
(* locations, tree, matches and regex tables from the trusted oracle,      *)
(* globals, mode, configuration, cancellation point) and the event trace   *)
(* recorded by the hooks.  The machine of TSGExec is run on the same       *)
(* inputs; each step's events are matched against the recorded trace       *)
(* (mechanism level), the property invariants are evaluated in every       *)
(* state, and the expected outcome is printed for the driver, which        *)
(* compares it with the real outcome at property level.                    *)
(***************************************************************************)
EXTENDS TSGExec, Json, IOUtils

Cases == ndJsonDeserialize(IOEnv.CASES)
Trees == JsonDeserialize(IOEnv.TREES)

VARIABLES ci,     \* index of the case this behaviour validates
          s,      \* machine state
          l,      \* number of recorded events matched so far
          drift,  \* 0, or the 1-based position of the first recorded event the machine disagrees with
          dexp    \* the machine's event at that position (<<>> if the machine emitted none there)

vars == <<ci, s, l, drift, dexp>>

Case == Cases[ci]
Tree == Trees[Case.src].nodes

RecEv(c, i) ==
  LET r == c.events[i] IN IF r.e = "attr" THEN [r EXCEPT !.val = FromJ(@)] ELSE r

\* position (1-based, in the recorded trace) of the first disagreement between chunk and c.events[l+1..], 0 if none
FirstMismatch(c, chunk, l0) ==
  LET n == Len(chunk)
      bad == {k \in 1..n : \/ l0 + k > Len(c.events)
                           \/ c.events[l0 + k].e # chunk[k].e
                           \/ RecEv(c, l0 + k) # chunk[k]}
  IN IF bad = {} THEN 0 ELSE l0 + (CHOOSE k \in bad : \A j \in bad : k <= j)

Runnable(i) == "outcome" \in DOMAIN Cases[i] /\ "skip" \notin DOMAIN Cases[i]
               /\ Cases[i].outcome.status \notin {"load_err", "load_panic"}

Init ==
  /\ ci \in {i \in 1..Len(Cases) : Runnable(i)}
  /\ s = InitState(Cases[ci], EmptyGraph)
  /\ l = 0
  /\ drift = 0
  /\ dexp = <<>>

Advance(kind) ==
  /\ s.status = "run"
  /\ StepKind(Case, s) = kind
  /\ s' = Step(Case, Tree, s)
  /\ l' = l + Len(s'.w.ev)
  /\ drift' = IF drift # 0 THEN drift ELSE FirstMismatch(Case, s'.w.ev, l)
  /\ dexp' = IF drift # 0 THEN dexp
             ELSE LET fm == FirstMismatch(Case, s'.w.ev, l) IN IF fm = 0 THEN <<>> ELSE <<s'.w.ev[fm - l]>>
  /\ UNCHANGED ci

StepKinds == {"init", "BeginMatch", "ForIter", "ScanIter", "BlockEnd", "let", "var", "set", "node", "edge",
              "attrn", "attre", "print", "if", "for", "scan", "edges", "attrs", "prints", "store", "scoped"}

CheckGlobalsStep == Advance("init")
BeginMatch == Advance("BeginMatch")
ForIter == Advance("ForIter")
ScanIter == Advance("ScanIter")
BlockEnd == Advance("BlockEnd")
ExecLet == Advance("let")
ExecVar == Advance("var")
ExecSet == Advance("set")
ExecNode == Advance("node")
ExecEdge == Advance("edge")
ExecAttrNode == Advance("attrn")
ExecAttrEdge == Advance("attre")
ExecPrint == Advance("print")
ExecIf == Advance("if")
ExecFor == Advance("for")
ExecScan == Advance("scan")
LazyEvalEdge == Advance("edges")
LazyEvalAttr == Advance("attrs")
LazyEvalPrint == Advance("prints")
LazyForceStore == Advance("store")
LazyForceScoped == Advance("scoped")

Next ==
  \/ CheckGlobalsStep \/ BeginMatch \/ ForIter \/ ScanIter \/ BlockEnd
  \/ ExecLet \/ ExecVar \/ ExecSet \/ ExecNode \/ ExecEdge \/ ExecAttrNode \/ ExecAttrEdge \/ ExecPrint
  \/ ExecIf \/ ExecFor \/ ExecScan
  \/ LazyEvalEdge \/ LazyEvalAttr \/ LazyEvalPrint \/ LazyForceStore \/ LazyForceScoped

Spec == Init /\ [][Next]_vars

\* ------------------------------------------------------------ invariants on the machine state
\* (C09) edge lists strictly ascending by sink: at most one edge per ordered pair
OutSorted ==
  \A i \in 1..s.w.g.n : \A p \in 1..(Len(s.w.g.out[i]) - 1) : s.w.g.out[i][p].sink < s.w.g.out[i][p + 1].sink
\* graph is well formed: every sink is a node
SinksExist == \A i \in 1..s.w.g.n : \A p \in 1..Len(s.w.g.out[i]) : s.w.g.out[i][p].sink < s.w.g.n
GraphShape == Len(s.w.g.na) = s.w.g.n /\ Len(s.w.g.out) = s.w.g.n
\* (C11) once cancelled, nothing more happens; the error is not wrapped
CancelledIsBare == s.status = "cancelled" => s.err.chain = <<>>
\* (C01) termination bound
Bounded == s.steps <= 200000

\* ------------------------------------------------------------ action properties
\* (C09) nodes, edges and attribute values only grow; values never change (single assignment)
AttrsStableStep ==
  s.status = "run" /\ s'.status # "err" =>
    /\ s'.w.g.n >= s.w.g.n
    /\ \A i \in 1..s.w.g.n :
         /\ \A a \in DOMAIN s.w.g.na[i] : a \in DOMAIN s'.w.g.na[i] /\ s'.w.g.na[i][a] = s.w.g.na[i][a]
         /\ \A p \in 1..Len(s.w.g.out[i]) :
              LET j == s.w.g.out[i][p].sink IN
              /\ HasEdge(s'.w.g, i - 1, j)
              /\ \A a \in DOMAIN s.w.g.out[i][p].at :
                   a \in DOMAIN EdgeAttrs(s'.w.g, i - 1, j) /\ EdgeAttrs(s'.w.g, i - 1, j)[a] = s.w.g.out[i][p].at[a]
AttrsStable == [][AttrsStableStep]_vars
\* (C11) terminal states are absorbing
TerminalAbsorbing == [][s.status = "run"]_vars

\* ------------------------------------------------------------ report
Report ==
  [id |-> Case.id, status |-> IF s.w.unsup # <<>> THEN "unsupported" ELSE s.status, missing |-> s.w.unsup,
   kind |-> s.err.kind, chain |-> s.err.chain, g |-> s.w.g, drift |-> drift, dexp |-> dexp,
   matched |-> l, recorded |-> Len(Case.events), steps |-> s.steps, polls |-> s.w.np]

Reported == s.status # "run" => PrintT(<<"RESULT", ToJson(Report)>>)

=============================================================================
