---------------------------- MODULE MCParseErrors ----------------------------
(***************************************************************************)
(* Property C18: syntax-error discovery.                                   *)
(*   Outermost(t)  - the reference's definition: the ERROR and MISSING     *)
(*                   nodes that are not inside another reported node, in   *)
(*                   document order.                                       *)
(*   the cursor walk of find_errors as a state machine (cursor,            *)
(*                   didVisitChildren, errors), in "all" and "first" mode. *)
(* Mode "gen":  TLC enumerates ALL ordered trees with at most MaxNodes     *)
(*              nodes x all assignments of {ok, error, missing-on-leaf}.   *)
(* Mode "real": the trees of the corpus / fault-injected sources (TREES),  *)
(*              with tree-sitter's own flags; the expected lists are       *)
(*              printed for comparison with ParseError::all/first/into_*.  *)
(***************************************************************************)
EXTENDS Naturals, Sequences, FiniteSets, TLC, Json, IOUtils

CONSTANTS Mode, MaxNodes

Trees == IF Mode = "real" THEN JsonDeserialize(IOEnv.TREES) ELSE <<>>

\* ---- generated trees: parent vectors in preorder (parent[1] = 0; parent[i] is i-1 or one of its ancestors)
RECURSIVE AncSelf(_, _)
AncSelf(p, i) == IF i = 0 THEN {} ELSE {i} \cup AncSelf(p, p[i])
RECURSIVE ParentVecs(_)
ParentVecs(n) ==
  IF n = 1 THEN {<<0>>}
  ELSE UNION {{Append(p, a) : a \in AncSelf(p, n - 1)} : p \in ParentVecs(n - 1)}
ChildrenOf(p, i) ==   \* children in document (preorder) order
  LET S == {j \in 1..Len(p) : p[j] = i}
      RECURSIVE Sorted(_)
      Sorted(T) == IF T = {} THEN <<>> ELSE LET m == CHOOSE x \in T : \A y \in T : x <= y  rest == T \ {m} IN <<m>> \o Sorted(rest)
  IN Sorted(S)
IsLeaf(p, i) == \A j \in 1..Len(p) : p[j] # i
FlagVecs(p) ==
  {f \in [1..Len(p) -> {"ok", "err", "miss"}] : \A i \in 1..Len(p) : f[i] = "miss" => IsLeaf(p, i)}
GenTrees ==
  UNION {{[parent |-> p, flag |-> f, children |-> [i \in 1..Len(p) |-> ChildrenOf(p, i)]] : f \in FlagVecs(p)} :
           p \in UNION {ParentVecs(n) : n \in 1..MaxNodes}}

RealTree(k) ==
  LET ns == Trees[k].nodes IN
  [parent |-> [i \in 1..Len(ns) |-> ns[i].parent],
   flag |-> [i \in 1..Len(ns) |-> IF ns[i].err THEN "err" ELSE IF ns[i].miss THEN "miss" ELSE "ok"],
   children |-> [i \in 1..Len(ns) |-> ns[i].children]]

VARIABLES t,      \* the tree
          id,     \* index in TREES (real mode) or 0
          first,  \* first_only?
          cur, did, errors, st
vars == <<t, id, first, cur, did, errors, st>>

Flagged(tr, i) == tr.flag[i] # "ok"
RECURSIVE HasFlaggedAncestor(_, _)
HasFlaggedAncestor(tr, i) ==
  LET p == tr.parent[i] IN IF p = 0 THEN FALSE ELSE Flagged(tr, p) \/ HasFlaggedAncestor(tr, p)
\* the reference's definition (preorder index order = document order)
OutermostSet(tr) == {i \in 1..Len(tr.parent) : Flagged(tr, i) /\ ~HasFlaggedAncestor(tr, i)}
RECURSIVE SetToSeq(_)
SetToSeq(S) == IF S = {} THEN <<>> ELSE LET m == CHOOSE x \in S : \A y \in S : x <= y  rest == S \ {m} IN <<m>> \o SetToSeq(rest)
Outermost(tr) == SetToSeq(OutermostSet(tr))
HasError(tr) == \E i \in 1..Len(tr.parent) : Flagged(tr, i)

\* cursor moves
NextSibling(tr, i) ==
  LET p == tr.parent[i] IN
  IF p = 0 THEN 0
  ELSE LET cs == tr.children[p]
           k == CHOOSE x \in 1..Len(cs) : cs[x] = i
       IN IF k < Len(cs) THEN cs[k + 1] ELSE 0
FirstChild(tr, i) == IF Len(tr.children[i]) = 0 THEN 0 ELSE tr.children[i][1]

Init ==
  /\ IF Mode = "real" THEN id \in 1..Len(Trees) /\ t = RealTree(id) ELSE id = 0 /\ t \in GenTrees
  /\ first \in BOOLEAN
  /\ cur = 1 /\ did = FALSE /\ errors = <<>>
  /\ st = IF HasError(t) THEN "walk" ELSE "done"      \* "do not walk the tree unless there actually are errors"

\* one iteration of the loop of find_errors
WalkStep ==
  /\ st = "walk"
  /\ LET flagged == Flagged(t, cur)
         errs == IF flagged THEN Append(errors, cur) ELSE errors
         d1 == did \/ flagged
     IN IF flagged /\ first THEN errors' = errs /\ st' = "done" /\ UNCHANGED <<cur, did>>
        ELSE /\ errors' = errs
             /\ IF d1 THEN
                  (IF NextSibling(t, cur) # 0 THEN cur' = NextSibling(t, cur) /\ did' = FALSE /\ st' = "walk"
                   ELSE IF t.parent[cur] # 0 THEN cur' = t.parent[cur] /\ did' = TRUE /\ st' = "walk"
                   ELSE st' = "done" /\ UNCHANGED <<cur, did>>)
                ELSE
                  (IF FirstChild(t, cur) # 0 THEN cur' = FirstChild(t, cur) /\ did' = FALSE /\ st' = "walk"
                   ELSE did' = TRUE /\ st' = "walk" /\ UNCHANGED cur)
  /\ UNCHANGED <<t, id, first>>

Spec == Init /\ [][WalkStep]_vars /\ WF_vars(WalkStep)

WalkEqualsDefinition ==
  st = "done" => errors = (IF first THEN (IF Outermost(t) = <<>> THEN <<>> ELSE <<Outermost(t)[1]>>) ELSE Outermost(t))
ErrorFreeIsEmpty == (st = "done" /\ ~HasError(t)) => errors = <<>>
NoDuplicates == \A a, b \in 1..Len(errors) : a # b => errors[a] # errors[b]
Terminates == <>(st = "done")

Report == (Mode = "real" /\ st = "done") =>
  PrintT(<<"EXPECT", ToJson([tree |-> id, first |-> first, errors |-> errors,
                             kinds |-> [k \in 1..Len(errors) |-> t.flag[errors[k]]]])>>)
=============================================================================
