SPECIFICATION Spec
CHECK_DEADLOCK FALSE
INVARIANT Isolation
PROPERTY NoCrossTalk
PROPERTY InputsImmutable
