---------------------------- MODULE MCStdlib ----------------------------
(***************************************************************************)
(* The standard library as a decision table (property C13).  TLC           *)
(* enumerates every function x every argument tuple over the value pools   *)
(* (POOL file) and every syntax function x every node of the pool trees;   *)
(* each call is one transition whose label is the documented result,       *)
(* printed for replay as one real call of Functions::stdlib().             *)
(***************************************************************************)
EXTENDS TSGValues, Json, IOUtils

Pool == JsonDeserialize(IOEnv.POOL)     \* [full, core, core4: Seq(value json), src: tree index, maxlen]
Trees == JsonDeserialize(IOEnv.TREES)
Tr == Trees[Pool.src].nodes

\* State variables hold pool indices, not the values: TLC writes queued states to disk with one byte per character, so text
\* outside ASCII must not be part of a state that is read again later.
PoolOf(w) == CASE w = "full" -> Pool.full [] w = "core" -> Pool.core [] w = "core4" -> Pool.core4 [] OTHER -> <<>>
IdxTuples(w, n) == [1..n -> 1..Len(PoolOf(w))]

SynFns == {"named-child-index", "source-text", "start-row", "start-column", "end-row", "end-column", "node-type", "named-child-count"}

G0 == AddGraphNode(AddGraphNode(EmptyGraph))

\* the syntax functions are also tabulated over every node of further trees (Pool.srcs: trees with comments, errors and missing
\* nodes, non-ASCII text, deep nesting, an empty file); `ti` selects the tree of a row
VARIABLES fn, which, idx, ti, phase, result
vars == <<fn, which, idx, ti, phase, result>>
TrOf(t) == Trees[t].nodes
args == IF which = "syn" THEN <<VSyn(idx[1])>> ELSE [i \in 1..Len(idx) |-> FromJ(PoolOf(which)[idx[i]])]

Init ==
  /\ phase = "call"
  /\ result = [ok |-> FALSE, kind |-> "pending"]
  /\ \/ /\ fn \in StdlibNames \cup {"no-such-fn"}
        /\ ti = Pool.src
        /\ \/ which = "full" /\ idx \in {<<>>} \cup IdxTuples("full", 1) \cup IdxTuples("full", 2)
           \/ Pool.maxlen >= 3 /\ which = "core" /\ idx \in IdxTuples("core", 3)
           \/ Pool.maxlen >= 4 /\ which = "core4" /\ idx \in IdxTuples("core4", 4)
     \/ fn \in SynFns /\ which = "syn" /\ ti \in {Pool.srcs[k] : k \in 1..Len(Pool.srcs)} /\ idx \in {<<n>> : n \in 1..Len(TrOf(ti))}

CallFn ==
  /\ phase = "call"
  /\ result' = Call(fn, args, G0, TrOf(ti))
  /\ phase' = "done"
  /\ UNCHANGED <<fn, which, idx, ti>>

Spec == Init /\ [][CallFn]_vars

\* ---- contracts that must hold for every tuple (checked on the table itself)
IsValue(v) == v.t \in {"null", "bool", "int", "str", "list", "set", "syn", "gn"}
Done == phase = "done"
ResultWellFormed == Done /\ result.ok => IsValue(result.v)
\* only `node` changes the graph, and it adds exactly one node
OnlyNodeAllocates == Done /\ result.ok => (IF fn = "node" THEN result.g.n = G0.n + 1 /\ result.v = VGn(G0.n) ELSE result.g = G0)
\* eq: null compares with anything, otherwise same types only, and it is equality
EqContract ==
  (Done /\ fn = "eq" /\ Len(args) = 2) =>
     IF args[1].t = "null" \/ args[2].t = "null" THEN result.ok /\ result.v = VBool(args[1].t = args[2].t)
     ELSE IF args[1].t = args[2].t THEN result.ok /\ result.v = VBool(args[1] = args[2])
     ELSE ~result.ok
\* wrong arity is an error for the fixed-arity functions
Arity == [f \in StdlibNames |->
  CASE f \in {"eq"} -> {2} [] f \in {"is-null", "not", "is-empty", "length"} \cup SynFns -> {1} [] f = "node" -> {0}
    [] f = "replace" -> {3} [] f = "join" -> {1, 2} [] OTHER -> 0..10]
ArityContract == (Done /\ fn \in StdlibNames /\ Len(args) \notin Arity[fn]) => ~result.ok
\* plus: the sum, or an error when it does not fit in 32 bits
PlusContract ==
  (Done /\ fn = "plus" /\ \A i \in 1..Len(args) : args[i].t = "int" /\ args[i].hi = 0 /\ args[i].lo < 1000) =>
     result.ok /\ result.v.hi = 0 /\ result.v.lo = (IF Len(args) = 0 THEN 0 ELSE IF Len(args) = 1 THEN args[1].lo
                                                     ELSE IF Len(args) = 2 THEN args[1].lo + args[2].lo
                                                     ELSE IF Len(args) = 3 THEN args[1].lo + args[2].lo + args[3].lo
                                                     ELSE args[1].lo + args[2].lo + args[3].lo + args[4].lo)
UnknownFunction == (Done /\ fn = "no-such-fn") => ~result.ok /\ result.kind = "UndefinedFunction"

Replay ==
  Done => PrintT(<<"REPLAY", ToJson([fn |-> fn, args |-> args, src |-> ti,
                                     ok |-> result.ok,
                                     v |-> IF result.ok THEN result.v ELSE VNull,
                                     kind |-> IF result.ok THEN "" ELSE result.kind,
                                     n |-> IF result.ok THEN result.g.n ELSE G0.n])>>)
=============================================================================
