//! Seeded, type-directed random generator of DSL programs (interchange AST without locations).
//! It aims at programs the loader accepts and whose runs mostly succeed with non-trivial graphs,
//! with a controlled share of ill-typed / conflicting / undefined constructs so that failing runs
//! are explored too.  It knows nothing about how the library evaluates anything.

use crate::oracle::QInfo;
use crate::render::int_json;
use crate::rng::Rng;
use serde_json::{json, Value as J};

#[derive(Clone, Copy, PartialEq, Eq, Debug)]
pub enum Ty {
    Gn,
    Syn,
    OptSyn,
    Str,
    Int,
    Bool,
    ListSyn,
    ListStr,
    ListInt,
    ListGn,
}

#[derive(Clone, Copy, PartialEq, Eq, Debug)]
pub enum Quant {
    One,
    Opt,
    List,
}

#[derive(Clone, Debug)]
struct Var {
    name: String,
    ty: Ty,
    local: bool,
    mutable: bool,
    quant: Quant,
}

#[derive(Clone, Debug)]
pub struct ScopedDef {
    pub qidx: usize,
    pub cap: String,
    pub name: String,
    pub ty: Ty,
}

#[derive(Clone)]
pub struct GenCfg {
    pub max_stanzas: usize,
    pub max_depth: usize,
    pub max_stmts: usize,
    /// probability (percent) that a requested expression is deliberately of a random other type
    pub noise_pct: usize,
    pub allow_scan: bool,
    pub allow_scoped: bool,
    pub allow_print: bool,
    pub allow_mutable_scoped: bool,
    pub allow_shorthands: bool,
    pub allow_globals: bool,
}

impl Default for GenCfg {
    fn default() -> Self {
        GenCfg {
            max_stanzas: 4,
            max_depth: 3,
            max_stmts: 5,
            noise_pct: 2,
            allow_scan: true,
            allow_scoped: true,
            allow_print: true,
            allow_mutable_scoped: false,
            allow_shorthands: true,
            allow_globals: true,
        }
    }
}

pub const STR_POOL: &[&str] = &["a", "b", "x", "ab/cd", "a.b", "", "h\u{e9}llo", "\u{4e2d}", "{}", "f(x)", "x y", "aXbXc", "l1\nl2", "t\tb"];
pub const RE_POOL: &[&str] = &["a", "[a-z]+", "/", "(a)|(b)", "x(y)?", "[^/]+", "\\.", "(\\w)(\\w)?", "b$", "\u{e9}", "[0-9]+", "\\s+", "(a|ab)(c)?", "\\b\\w"];
pub const ATTR_POOL: &[&str] = &["a", "b", "c", "d", "kind", "label"];
pub const SCOPED_POOL: &[&str] = &["sn", "sm", "sv"];
pub const FMT_POOL: &[&str] = &["{}", "<{}>", "{{{}}}", "x{}y", "{}-"];

pub struct Gen<'a> {
    pub rng: Rng,
    pub cfg: GenCfg,
    pub queries: &'a [QInfo],
    frames: Vec<Vec<Var>>,
    caps: Vec<(String, Quant)>,
    scan_groups: Option<usize>,
    globals: Vec<Var>,
    inherit: Vec<String>,
    shorthands: Vec<String>,
    scoped: Vec<ScopedDef>,
    cur_q: usize,
    fresh: usize,
    depth: usize,
    /// (node expr json string, attr name) already set in the current block, to limit conflicts
    attr_done: Vec<(String, String)>,
    edges_done: Vec<(String, String)>,
}

fn count_groups(re: &str) -> usize {
    regex::Regex::new(re).map(|r| r.captures_len()).unwrap_or(1)
}

impl<'a> Gen<'a> {
    pub fn new(rng: Rng, cfg: GenCfg, queries: &'a [QInfo]) -> Self {
        Gen {
            rng,
            cfg,
            queries,
            frames: Vec::new(),
            caps: Vec::new(),
            scan_groups: None,
            globals: Vec::new(),
            inherit: Vec::new(),
            shorthands: Vec::new(),
            scoped: Vec::new(),
            cur_q: 0,
            fresh: 0,
            depth: 0,
            attr_done: Vec::new(),
            edges_done: Vec::new(),
        }
    }

    fn fresh_name(&mut self, p: &str) -> String {
        self.fresh += 1;
        format!("{}{}", p, self.fresh)
    }

    fn visible(&self) -> Vec<Var> {
        let mut v: Vec<Var> = Vec::new();
        for f in &self.frames {
            for x in f {
                v.retain(|y| y.name != x.name);
                v.push(x.clone());
            }
        }
        v
    }

    fn vars_of(&self, ty: Ty, need_local: bool) -> Vec<Var> {
        let mut v: Vec<Var> = self
            .visible()
            .into_iter()
            .filter(|x| x.ty == ty && (!need_local || x.local))
            .collect();
        for g in &self.globals {
            if g.ty == ty {
                v.push(g.clone());
            }
        }
        v
    }

    fn var_expr(name: &str) -> J {
        json!({"k": "var", "name": name})
    }

    fn str_lit(&mut self) -> J {
        let s = *self.rng.pick(STR_POOL);
        json!({"k": "str", "v": s})
    }

    fn int_lit(&mut self) -> J {
        let v: u64 = match self.rng.below(8) {
            0 => 0,
            1 => 1,
            2 => 2,
            3 => 7,
            4 => 65535,
            5 => 65536,
            6 => 4294967295,
            _ => self.rng.below(100) as u64,
        };
        int_json("k", v)
    }

    fn call(f: &str, args: Vec<J>) -> J {
        json!({"k": "call", "fn": f, "args": args})
    }

    fn random_ty(&mut self) -> Ty {
        *self.rng.pick(&[
            Ty::Gn,
            Ty::Syn,
            Ty::OptSyn,
            Ty::Str,
            Ty::Int,
            Ty::Bool,
            Ty::ListSyn,
            Ty::ListStr,
            Ty::ListInt,
            Ty::ListGn,
        ])
    }

    /// expression of (probably) type `ty`; returns (expr, is_local, quantifier the checker will infer)
    fn expr(&mut self, ty: Ty, need_local: bool, d: usize) -> (J, bool, Quant) {
        let ty = if self.rng.below(100) < self.cfg.noise_pct {
            self.random_ty()
        } else {
            ty
        };
        // variables first
        let vars = self.vars_of(ty, need_local);
        if !vars.is_empty() && self.rng.chance(1, 2) {
            let v = self.rng.pick(&vars).clone();
            return (Self::var_expr(&v.name), v.local, v.quant);
        }
        // scoped reads
        if !need_local && self.cfg.allow_scoped && self.rng.chance(1, 4) {
            let cands: Vec<ScopedDef> = self
                .scoped
                .iter()
                .filter(|s| s.ty == ty && self.caps.iter().any(|c| c.1 == Quant::One))
                .cloned()
                .collect();
            if !cands.is_empty() {
                let s = self.rng.pick(&cands).clone();
                // prefer the same capture of the same query; otherwise any single-node capture
                let cap = if s.qidx == self.cur_q && self.caps.iter().any(|c| c.0 == s.cap && c.1 == Quant::One) {
                    s.cap.clone()
                } else {
                    let ones: Vec<String> = self.caps.iter().filter(|c| c.1 == Quant::One).map(|c| c.0.clone()).collect();
                    self.rng.pick(&ones).clone()
                };
                return (
                    json!({"k": "svar", "scope": {"k": "cap", "name": cap}, "name": s.name}),
                    false,
                    Quant::One,
                );
            }
        }
        let deep = d >= 3;
        match ty {
            Ty::Gn => {
                let vs = self.vars_of(Ty::Gn, need_local);
                if !vs.is_empty() && !self.rng.chance(1, 6) {
                    let v = self.rng.pick(&vs).clone();
                    (Self::var_expr(&v.name), v.local, v.quant)
                } else {
                    (Self::call("node", vec![]), true, Quant::One)
                }
            }
            Ty::Syn => {
                let ones: Vec<String> = self.caps.iter().filter(|c| c.1 == Quant::One).map(|c| c.0.clone()).collect();
                if !ones.is_empty() {
                    let c = self.rng.pick(&ones).clone();
                    (json!({"k": "cap", "name": c}), true, Quant::One)
                } else {
                    let vs = self.vars_of(Ty::Syn, need_local);
                    if !vs.is_empty() {
                        let v = self.rng.pick(&vs).clone();
                        (Self::var_expr(&v.name), v.local, v.quant)
                    } else {
                        (json!({"k": "null"}), true, Quant::One)
                    }
                }
            }
            Ty::OptSyn => {
                let opts: Vec<String> = self.caps.iter().filter(|c| c.1 == Quant::Opt).map(|c| c.0.clone()).collect();
                if !opts.is_empty() {
                    let c = self.rng.pick(&opts).clone();
                    (json!({"k": "cap", "name": c}), true, Quant::Opt)
                } else {
                    (json!({"k": "null"}), true, Quant::One)
                }
            }
            Ty::Str => {
                let choice = if deep { self.rng.below(2) } else { self.rng.below(9) };
                match choice {
                    0 | 1 => (self.str_lit(), true, Quant::One),
                    2 => {
                        let (e, l, _) = self.expr(Ty::Syn, need_local, d + 1);
                        (Self::call("source-text", vec![e]), l, Quant::One)
                    }
                    3 => {
                        let (e, l, _) = self.expr(Ty::Syn, need_local, d + 1);
                        (Self::call("node-type", vec![e]), l, Quant::One)
                    }
                    4 => {
                        let fmt = *self.rng.pick(FMT_POOL);
                        let at = *self.rng.pick(&[Ty::Str, Ty::Int, Ty::Bool, Ty::ListStr, Ty::Syn]);
                        let (e, l, _) = self.expr(at, need_local, d + 1);
                        (Self::call("format", vec![json!({"k": "str", "v": fmt}), e]), l, Quant::One)
                    }
                    5 => {
                        let (e, l, _) = self.expr(Ty::ListStr, need_local, d + 1);
                        let mut args = vec![e];
                        if self.rng.chance(1, 2) {
                            args.push(json!({"k": "str", "v": "/"}));
                        }
                        (Self::call("join", args), l, Quant::One)
                    }
                    6 => {
                        if let Some(n) = self.scan_groups {
                            let i = if self.rng.chance(1, 30) { n + 1 } else { self.rng.below(n) };
                            (json!({"k": "rcap", "i": i}), true, Quant::One)
                        } else if self.cfg.noise_pct >= 10 && self.rng.chance(1, 6) {
                            (json!({"k": "rcap", "i": self.rng.below(3)}), true, Quant::One)
                        } else {
                            (self.str_lit(), true, Quant::One)
                        }
                    }
                    7 => {
                        let (e, l, _) = self.expr(Ty::Str, need_local, d + 1);
                        let pat = *self.rng.pick(&["a", "/", "b", "x y"]);
                        let rep = *self.rng.pick(&["", "_", "zz"]);
                        (
                            Self::call("replace", vec![e, json!({"k": "str", "v": pat}), json!({"k": "str", "v": rep})]),
                            l,
                            Quant::One,
                        )
                    }
                    _ => (self.str_lit(), true, Quant::One),
                }
            }
            Ty::Int => {
                let choice = if deep { 0 } else { self.rng.below(7) };
                match choice {
                    0 | 1 => (self.int_lit(), true, Quant::One),
                    2 => {
                        let (a, la, _) = self.expr(Ty::Int, need_local, d + 1);
                        let (b, lb, _) = self.expr(Ty::Int, need_local, d + 1);
                        (Self::call("plus", vec![a, b]), la && lb, Quant::One)
                    }
                    3 => {
                        let f = *self.rng.pick(&["start-row", "start-column", "end-row", "end-column", "named-child-count"]);
                        let (e, l, _) = self.expr(Ty::Syn, need_local, d + 1);
                        (Self::call(f, vec![e]), l, Quant::One)
                    }
                    4 => {
                        let lt = *self.rng.pick(&[Ty::ListSyn, Ty::ListStr, Ty::ListInt]);
                        let (e, l, _) = self.expr(lt, need_local, d + 1);
                        (Self::call("length", vec![e]), l, Quant::One)
                    }
                    5 => {
                        let (e, l, _) = self.expr(Ty::Syn, need_local, d + 1);
                        (Self::call("named-child-index", vec![e]), l, Quant::One)
                    }
                    _ => (self.int_lit(), true, Quant::One),
                }
            }
            Ty::Bool => {
                let choice = if deep { 0 } else { self.rng.below(8) };
                match choice {
                    0 => (json!({"k": "true"}), true, Quant::One),
                    1 => (json!({"k": "false"}), true, Quant::One),
                    2 => {
                        let t = *self.rng.pick(&[Ty::Str, Ty::Int, Ty::Bool, Ty::Syn, Ty::ListStr]);
                        let (a, la, _) = self.expr(t, need_local, d + 1);
                        let (b, lb, _) = self.expr(t, need_local, d + 1);
                        (Self::call("eq", vec![a, b]), la && lb, Quant::One)
                    }
                    3 => {
                        let (a, la, _) = self.expr(Ty::Bool, need_local, d + 1);
                        (Self::call("not", vec![a]), la, Quant::One)
                    }
                    4 => {
                        let f = *self.rng.pick(&["and", "or"]);
                        let n = self.rng.range(0, 3);
                        let mut args = Vec::new();
                        let mut l = true;
                        for _ in 0..n {
                            let (a, la, _) = self.expr(Ty::Bool, need_local, d + 1);
                            l &= la;
                            args.push(a);
                        }
                        (Self::call(f, args), l, Quant::One)
                    }
                    5 => {
                        let t = *self.rng.pick(&[Ty::OptSyn, Ty::Str, Ty::Syn]);
                        let (a, la, _) = self.expr(t, need_local, d + 1);
                        (Self::call("is-null", vec![a]), la, Quant::One)
                    }
                    6 => {
                        let lt = *self.rng.pick(&[Ty::ListSyn, Ty::ListStr]);
                        let (a, la, _) = self.expr(lt, need_local, d + 1);
                        (Self::call("is-empty", vec![a]), la, Quant::One)
                    }
                    _ => (json!({"k": "true"}), true, Quant::One),
                }
            }
            Ty::ListSyn | Ty::ListStr | Ty::ListInt | Ty::ListGn => {
                let et = match ty {
                    Ty::ListSyn => Ty::Syn,
                    Ty::ListStr => Ty::Str,
                    Ty::ListInt => Ty::Int,
                    _ => Ty::Gn,
                };
                if ty == Ty::ListSyn {
                    let lists: Vec<String> = self.caps.iter().filter(|c| c.1 == Quant::List).map(|c| c.0.clone()).collect();
                    if !lists.is_empty() && self.rng.chance(2, 3) {
                        let c = self.rng.pick(&lists).clone();
                        return (json!({"k": "cap", "name": c}), true, Quant::List);
                    }
                }
                let choice = if deep { 0 } else { self.rng.below(6) };
                match choice {
                    0 | 1 | 2 => {
                        let n = self.rng.range(0, 3);
                        let mut elems = Vec::new();
                        let mut l = true;
                        for _ in 0..n {
                            let (e, le, _) = self.expr(et, need_local, d + 1);
                            l &= le;
                            elems.push(e);
                        }
                        let k = if !need_local && ty != Ty::ListSyn && self.rng.chance(1, 8) { "set" } else { "list" };
                        (json!({"k": k, "elems": elems}), l, Quant::List)
                    }
                    3 | 4 => {
                        // comprehension over a static, local list
                        let st = *self.rng.pick(&[Ty::ListSyn, Ty::ListStr, Ty::ListInt]);
                        let (src, _, q) = self.list_source(st, d + 1);
                        if q != Quant::List {
                            return (json!({"k": "list", "elems": []}), true, Quant::List);
                        }
                        let vt = match st {
                            Ty::ListSyn => Ty::Syn,
                            Ty::ListStr => Ty::Str,
                            _ => Ty::Int,
                        };
                        let vname = self.fresh_name("c");
                        self.frames.push(vec![Var { name: vname.clone(), ty: vt, local: true, mutable: false, quant: Quant::List }]);
                        let (elem, le, _) = self.expr(et, need_local, d + 1);
                        self.frames.pop();
                        let k = if self.rng.chance(1, 6) && !need_local { "setc" } else { "listc" };
                        (json!({"k": k, "elem": elem, "var": {"name": vname}, "value": src}), le, Quant::List)
                    }
                    _ => {
                        let (a, la, _) = self.expr(ty, need_local, d + 1);
                        let (b, lb, _) = self.expr(ty, need_local, d + 1);
                        (Self::call("concat", vec![a, b]), la && lb, Quant::One)
                    }
                }
            }
        }
    }

    /// a local expression with list quantifier (legal source of for / comprehension), if possible
    fn list_source(&mut self, ty: Ty, d: usize) -> (J, bool, Quant) {
        for _ in 0..6 {
            let (e, l, q) = self.expr(ty, true, d);
            if l && q == Quant::List {
                return (e, l, q);
            }
        }
        let et = match ty {
            Ty::ListSyn => Ty::Syn,
            Ty::ListStr => Ty::Str,
            Ty::ListInt => Ty::Int,
            _ => Ty::Gn,
        };
        let n = self.rng.range(0, 3);
        let mut elems = Vec::new();
        for _ in 0..n {
            let (e, l, _) = self.expr(et, true, d + 2);
            if l {
                elems.push(e);
            }
        }
        (json!({"k": "list", "elems": elems}), true, Quant::List)
    }

    fn local_expr(&mut self, ty: Ty) -> J {
        for _ in 0..6 {
            let (e, l, _) = self.expr(ty, true, 1);
            if l {
                return e;
            }
        }
        match ty {
            Ty::Bool => json!({"k": "true"}),
            Ty::Str => json!({"k": "str", "v": "ab/cd"}),
            _ => json!({"k": "null"}),
        }
    }

    fn declare(&mut self, v: Var) {
        self.frames.last_mut().unwrap().push(v);
    }

    fn attr_value(&mut self) -> J {
        let t = *self.rng.pick(&[Ty::Str, Ty::Int, Ty::Bool, Ty::Syn, Ty::Gn, Ty::ListStr, Ty::Str, Ty::Int]);
        self.expr(t, false, 0).0
    }

    fn attrs(&mut self, target_key: &str) -> Vec<J> {
        let n = self.rng.range(1, 3);
        let mut out = Vec::new();
        for _ in 0..n {
            let use_sh = !self.shorthands.is_empty() && self.rng.chance(1, 5);
            let name = if use_sh {
                self.rng.pick(&self.shorthands).clone()
            } else {
                self.rng.pick(ATTR_POOL).to_string()
            };
            let key = (target_key.to_string(), name.clone());
            if self.attr_done.contains(&key) && !self.rng.chance(1, 10) {
                continue;
            }
            self.attr_done.push(key);
            let value = if use_sh { self.expr(Ty::Str, false, 1).0 } else { self.attr_value() };
            if value["k"] == "true" && self.rng.chance(1, 2) {
                out.push(json!({"name": name, "value": value, "bare": true}));
            } else {
                out.push(json!({"name": name, "value": value}));
            }
        }
        if out.is_empty() {
            let name = self.fresh_name("u");
            out.push(json!({"name": name, "value": self.attr_value()}));
        }
        out
    }

    fn block(&mut self, init: Vec<Var>) -> Vec<J> {
        self.frames.push(init);
        let saved_attr = self.attr_done.len();
        let saved_edges = self.edges_done.len();
        self.depth += 1;
        let n = self.rng.range(1, self.cfg.max_stmts);
        let mut out = Vec::new();
        for _ in 0..n {
            if let Some(s) = self.stmt() {
                out.push(s);
            }
        }
        self.depth -= 1;
        self.attr_done.truncate(saved_attr);
        self.edges_done.truncate(saved_edges);
        self.frames.pop();
        out
    }

    fn stmt(&mut self) -> Option<J> {
        let nested_ok = self.depth < self.cfg.max_depth;
        let choice = self.rng.below(20);
        match choice {
            0..=3 => {
                // node
                if self.cfg.allow_scoped && self.rng.chance(1, 4) {
                    let ones: Vec<String> = self.caps.iter().filter(|c| c.1 == Quant::One).map(|c| c.0.clone()).collect();
                    if !ones.is_empty() {
                        let cap = self.rng.pick(&ones).clone();
                        let name = self.rng.pick(SCOPED_POOL).to_string();
                        self.scoped.push(ScopedDef { qidx: self.cur_q, cap: cap.clone(), name: name.clone(), ty: Ty::Gn });
                        return Some(json!({"k": "node", "var": {"k": "svar", "scope": {"k": "cap", "name": cap}, "name": name}}));
                    }
                }
                let name = self.fresh_name("n");
                self.declare(Var { name: name.clone(), ty: Ty::Gn, local: true, mutable: false, quant: Quant::One });
                Some(json!({"k": "node", "var": {"k": "var", "name": name}}))
            }
            4..=6 => {
                // let / var
                let ty = *self.rng.pick(&[Ty::Str, Ty::Int, Ty::Bool, Ty::Gn, Ty::Syn, Ty::ListStr, Ty::ListSyn, Ty::OptSyn, Ty::ListInt]);
                let (e, l, q) = self.expr(ty, false, 0);
                if self.cfg.allow_scoped && self.rng.chance(1, 5) {
                    let ones: Vec<String> = self.caps.iter().filter(|c| c.1 == Quant::One).map(|c| c.0.clone()).collect();
                    if !ones.is_empty() {
                        let cap = self.rng.pick(&ones).clone();
                        let name = self.rng.pick(SCOPED_POOL).to_string();
                        self.scoped.push(ScopedDef { qidx: self.cur_q, cap: cap.clone(), name: name.clone(), ty });
                        let kw = if self.cfg.allow_mutable_scoped && self.rng.chance(1, 4) { "var" } else { "let" };
                        return Some(json!({"k": kw, "var": {"k": "svar", "scope": {"k": "cap", "name": cap}, "name": name}, "value": e}));
                    }
                }
                let mutable = self.rng.chance(1, 3);
                let name = self.fresh_name("v");
                self.declare(Var { name: name.clone(), ty, local: l && !mutable, mutable, quant: q });
                Some(json!({"k": if mutable { "var" } else { "let" }, "var": {"k": "var", "name": name}, "value": e}))
            }
            7 => {
                // set
                let muts: Vec<Var> = self.visible().into_iter().filter(|v| v.mutable).collect();
                if muts.is_empty() {
                    return None;
                }
                let v = self.rng.pick(&muts).clone();
                let (e, _, _) = self.expr(v.ty, false, 0);
                Some(json!({"k": "set", "var": {"k": "var", "name": v.name}, "value": e}))
            }
            8 if self.rng.chance(1, 3) && self.vars_of(Ty::Gn, false).len() >= 3 => {
                // fan-out: several edges from one node, then an attribute on each of them (in another order)
                let vs = self.vars_of(Ty::Gn, false);
                let src = self.rng.pick(&vs).name.clone();
                let mut sinks: Vec<String> = vs.iter().map(|v| v.name.clone()).collect();
                self.rng.shuffle(&mut sinks);
                sinks.truncate(3);
                let mut arms = Vec::new();
                for t in &sinks {
                    arms.push(json!({"k": "edge", "src": Self::var_expr(&src), "dst": Self::var_expr(t)}));
                }
                self.rng.shuffle(&mut sinks);
                for t in &sinks {
                    let name = self.fresh_name("f");
                    arms.push(json!({"k": "attre", "src": Self::var_expr(&src), "dst": Self::var_expr(t), "attrs": [{"name": name, "value": self.attr_value()}]}));
                }
                Some(json!({"k": "if", "arms": [{"conds": [{"k": "bool", "value": {"k": "true"}}], "stmts": arms}]}))
            }
            8..=10 => {
                // edge
                let (a, _, _) = self.expr(Ty::Gn, false, 0);
                let (b, _, _) = self.expr(Ty::Gn, false, 0);
                if a["k"] == "var" && b["k"] == "var" {
                    self.edges_done.push((a.to_string(), b.to_string()));
                }
                Some(json!({"k": "edge", "src": a, "dst": b}))
            }
            11..=13 => {
                // attr on node
                let (n, _, _) = self.expr(Ty::Gn, false, 0);
                if n["k"] == "call" {
                    // attributes on an anonymous fresh node are fine but dull; keep some
                    if !self.rng.chance(1, 4) {
                        return None;
                    }
                }
                let key = n.to_string();
                let attrs = self.attrs(&key);
                Some(json!({"k": "attrn", "node": n, "attrs": attrs}))
            }
            14 => {
                // attr on edge
                if self.edges_done.is_empty() {
                    return None;
                }
                let (a, b) = self.rng.pick(&self.edges_done).clone();
                let key = format!("{}->{}", a, b);
                let attrs = self.attrs(&key);
                let a: J = serde_json::from_str(&a).unwrap();
                let b: J = serde_json::from_str(&b).unwrap();
                Some(json!({"k": "attre", "src": a, "dst": b, "attrs": attrs}))
            }
            15 => {
                if !nested_ok {
                    return None;
                }
                // if
                let narms = self.rng.range(1, 3);
                let mut arms = Vec::new();
                for i in 0..narms {
                    let is_else = i > 0 && i == narms - 1 && self.rng.chance(1, 2);
                    let mut conds = Vec::new();
                    if !is_else {
                        let nc = self.rng.range(1, 3);
                        for ci in 0..nc {
                            if ci > 0 && self.rng.chance(1, 8) {
                                // a later condition that fails when evaluated (all conditions of an arm are evaluated)
                                let bad = match self.rng.below(3) {
                                    0 => Self::call("not", vec![int_json("k", 1)]),
                                    1 => Self::call("eq", vec![json!({"k": "str", "v": "a"}), int_json("k", 1)]),
                                    _ => Self::call("no-such-function", vec![]),
                                };
                                conds.push(json!({"k": "bool", "value": bad}));
                                continue;
                            }
                            let opts: Vec<String> = self.caps.iter().filter(|c| c.1 == Quant::Opt).map(|c| c.0.clone()).collect();
                            let optvars: Vec<Var> = self.visible().into_iter().filter(|v| v.local && v.quant == Quant::Opt).collect();
                            if (!opts.is_empty() || !optvars.is_empty()) && self.rng.chance(1, 2) {
                                let k = if self.rng.chance(1, 2) { "some" } else { "none" };
                                let value = if !opts.is_empty() && (optvars.is_empty() || self.rng.chance(1, 2)) {
                                    let c = self.rng.pick(&opts).clone();
                                    json!({"k": "cap", "name": c})
                                } else {
                                    let v = self.rng.pick(&optvars).clone();
                                    Self::var_expr(&v.name)
                                };
                                conds.push(json!({"k": k, "value": value}));
                            } else {
                                let e = self.local_expr(Ty::Bool);
                                conds.push(json!({"k": "bool", "value": e}));
                            }
                        }
                    }
                    let stmts = self.block(vec![]);
                    arms.push(json!({"conds": conds, "stmts": stmts}));
                }
                Some(json!({"k": "if", "arms": arms}))
            }
            16 | 17 => {
                if !nested_ok {
                    return None;
                }
                // for
                let st = *self.rng.pick(&[Ty::ListSyn, Ty::ListSyn, Ty::ListStr, Ty::ListInt]);
                let (src, _, _) = self.list_source(st, 0);
                let vt = match st {
                    Ty::ListSyn => Ty::Syn,
                    Ty::ListStr => Ty::Str,
                    _ => Ty::Int,
                };
                let vname = self.fresh_name("i");
                let stmts = self.block(vec![Var { name: vname.clone(), ty: vt, local: true, mutable: false, quant: Quant::List }]);
                Some(json!({"k": "for", "var": {"name": vname}, "value": src, "stmts": stmts}))
            }
            18 => {
                if !nested_ok || !self.cfg.allow_scan {
                    return None;
                }
                // scan
                let subj = if self.rng.chance(1, 2) {
                    self.local_expr(Ty::Str)
                } else {
                    let (e, l, _) = self.expr(Ty::Syn, true, 2);
                    if l {
                        Self::call("source-text", vec![e])
                    } else {
                        self.local_expr(Ty::Str)
                    }
                };
                let narms = self.rng.range(1, 3);
                let mut arms = Vec::new();
                for _ in 0..narms {
                    let re = *self.rng.pick(RE_POOL);
                    let saved = self.scan_groups;
                    let ng = count_groups(re);
                    self.scan_groups = Some(ng);
                    let mut stmts = self.block(vec![]);
                    self.scan_groups = saved;
                    if self.rng.chance(1, 2) {
                        // record every group of the match (incl. groups that did not participate)
                        let n = self.fresh_name("g");
                        let attrs: Vec<J> = (0..ng).map(|k| json!({"name": format!("g{}", k), "value": {"k": "rcap", "i": k}})).collect();
                        stmts.insert(0, json!({"k": "attrn", "node": {"k": "var", "name": n}, "attrs": attrs}));
                        stmts.insert(0, json!({"k": "node", "var": {"k": "var", "name": n}}));
                    }
                    arms.push(json!({"re": re, "stmts": stmts}));
                }
                Some(json!({"k": "scan", "value": subj, "arms": arms}))
            }
            _ => {
                if self.cfg.allow_print && self.rng.chance(1, 3) {
                    let (e, _, _) = self.expr(Ty::Str, false, 1);
                    Some(json!({"k": "print", "values": [{"k": "str", "v": "p"}, e]}))
                } else {
                    // assignment to a mutable variable, or an attribute on an edge created in this block
                    let muts: Vec<Var> = self.visible().into_iter().filter(|v| v.mutable).collect();
                    if !muts.is_empty() && self.rng.chance(1, 2) {
                        let v = self.rng.pick(&muts).clone();
                        let (e, _, _) = self.expr(v.ty, false, 0);
                        Some(json!({"k": "set", "var": {"k": "var", "name": v.name}, "value": e}))
                    } else if !self.edges_done.is_empty() {
                        let (a, b) = self.rng.pick(&self.edges_done).clone();
                        let key = format!("{}->{}", a, b);
                        let attrs = self.attrs(&key);
                        let a: J = serde_json::from_str(&a).unwrap();
                        let b: J = serde_json::from_str(&b).unwrap();
                        Some(json!({"k": "attre", "src": a, "dst": b, "attrs": attrs}))
                    } else {
                        None
                    }
                }
            }
        }
    }

    /// One whole file + the globals to supply.
    pub fn file(&mut self) -> (J, J) {
        let mut globals_decl = Vec::new();
        let mut globals_val = serde_json::Map::new();
        self.globals.clear();
        if self.cfg.allow_globals && self.rng.chance(1, 3) {
            let n = self.rng.range(1, 2);
            for i in 0..n {
                let name = format!("G{}", i);
                match self.rng.below(4) {
                    0 => {
                        globals_decl.push(json!({"name": name, "q": "one", "has_default": false, "default": ""}));
                        globals_val.insert(name.clone(), json!({"t": "str", "s": self.rng.pick(STR_POOL)}));
                        self.globals.push(Var { name, ty: Ty::Str, local: true, mutable: false, quant: Quant::One });
                    }
                    1 => {
                        globals_decl.push(json!({"name": name, "q": "one", "has_default": true, "default": "dflt"}));
                        if self.rng.chance(1, 2) {
                            globals_val.insert(name.clone(), json!({"t": "str", "s": "given"}));
                        }
                        self.globals.push(Var { name, ty: Ty::Str, local: true, mutable: false, quant: Quant::One });
                    }
                    2 => {
                        globals_decl.push(json!({"name": name, "q": "star", "has_default": false, "default": ""}));
                        let n = self.rng.range(0, 3);
                        let l: Vec<J> = (0..n).map(|_| json!({"t": "str", "s": self.rng.pick(STR_POOL)})).collect();
                        globals_val.insert(name.clone(), json!({"t": "list", "l": l}));
                        self.globals.push(Var { name, ty: Ty::ListStr, local: true, mutable: false, quant: Quant::List });
                    }
                    _ => {
                        globals_decl.push(json!({"name": name, "q": "one", "has_default": false, "default": ""}));
                        globals_val.insert(name.clone(), int_json("t", self.rng.below(50) as u64));
                        self.globals.push(Var { name, ty: Ty::Int, local: true, mutable: false, quant: Quant::One });
                    }
                }
            }
        }
        self.inherit.clear();
        if self.cfg.allow_scoped && self.rng.chance(1, 3) {
            let n = self.rng.range(1, 2);
            for _ in 0..n {
                let s = self.rng.pick(SCOPED_POOL).to_string();
                if !self.inherit.contains(&s) {
                    self.inherit.push(s);
                }
            }
        }
        self.shorthands.clear();
        let mut shorthands = Vec::new();
        if self.cfg.allow_shorthands && self.rng.chance(1, 3) {
            let name = "sh".to_string();
            let v = "shv";
            let mut attrs = vec![json!({"name": "sh1", "value": {"k": "var", "name": v}})];
            if self.rng.chance(1, 2) {
                attrs.push(json!({"name": "sh2", "value": {"k": "call", "fn": "format", "args": [{"k": "str", "v": "<{}>"}, {"k": "var", "name": v}]}}));
            }
            if self.rng.chance(1, 3) {
                attrs.push(json!({"name": "sh3", "value": {"k": "true"}, "bare": true}));
            }
            shorthands.push(json!({"name": name, "var": {"name": v}, "attrs": attrs}));
            self.shorthands.push(name);
            if self.rng.chance(1, 2) {
                // a shorthand whose expansion uses another shorthand
                shorthands.push(json!({"name": "shh", "var": {"name": "shw"}, "attrs": [
                    {"name": "sh", "value": {"k": "var", "name": "shw"}},
                    {"name": "shh1", "value": {"k": "call", "fn": "format", "args": [{"k": "str", "v": "[{}]"}, {"k": "var", "name": "shw"}]}}]}));
                self.shorthands.push("shh".to_string());
            }
        }
        self.scoped.clear();
        let nst = self.rng.range(1, self.cfg.max_stanzas);
        let mut stanzas = Vec::new();
        let mut used_q: Vec<usize> = Vec::new();
        for _ in 0..nst {
            // reuse an earlier query with probability 1/3 (so that scoped variables meet again)
            let qi = if !used_q.is_empty() && self.rng.chance(1, 3) {
                *self.rng.pick(&used_q)
            } else {
                self.rng.below(self.queries.len())
            };
            used_q.push(qi);
            self.cur_q = qi;
            let q = &self.queries[qi];
            self.caps = q
                .caps
                .iter()
                .map(|(n, qn)| {
                    (
                        n.clone(),
                        match *qn {
                            "one" => Quant::One,
                            "opt" => Quant::Opt,
                            _ => Quant::List,
                        },
                    )
                })
                .collect();
            self.frames.clear();
            self.attr_done.clear();
            self.edges_done.clear();
            self.depth = 0;
            let mut stmts = self.block(vec![]);
            // every capture not prefixed with _ must be used: add a harmless use for unused ones
            let text = json!(stmts).to_string();
            for (name, q) in self.caps.clone() {
                if name.starts_with('_') {
                    continue;
                }
                let needle = format!("{{\"k\":\"cap\",\"name\":\"{}\"}}", name);
                if !text.contains(&needle) {
                    let vname = self.fresh_name("u");
                    let value = json!({"k": "cap", "name": name});
                    let _ = q;
                    stmts.push(json!({"k": "let", "var": {"k": "var", "name": vname}, "value": value}));
                }
            }
            stanzas.push(json!({"qtext": q.text, "stmts": stmts}));
        }
        (
            json!({"globals": globals_decl, "inherit": self.inherit, "shorthands": shorthands, "stanzas": stanzas}),
            J::Object(globals_val),
        )
    }
}
