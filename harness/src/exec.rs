//! Runs the REAL library (tree-sitter-graph built from /repo with the `verif` hooks) on one case and
//! records what happened: the event trace from the hooks, every cancellation poll, and the outcome
//! projected through the public API.

use crate::oracle::Src;
use crate::render::int_json;
use serde_json::{json, Value as J};
use std::cell::Cell;
use std::collections::BTreeSet;
use tree_sitter_graph::ast::File;
use tree_sitter_graph::functions::Functions;
use tree_sitter_graph::graph::{Graph, Value};
use tree_sitter_graph::{
    CancellationError, CancellationFlag, Context, ExecutionConfig, ExecutionError, Identifier,
    Variables,
};

pub const MAX_EVENTS: usize = 20000;

/// Polls are recorded in the same event stream as the hook events, and the flag fires from the
/// k-th poll onwards (k = 0: never).
pub struct CountingFlag {
    pub cancel_at: usize,
    pub polls: Cell<usize>,
    pub polls_after_fire: Cell<usize>,
    pub fired: Cell<bool>,
}

impl CountingFlag {
    pub fn new(cancel_at: usize) -> Self {
        CountingFlag {
            cancel_at,
            polls: Cell::new(0),
            polls_after_fire: Cell::new(0),
            fired: Cell::new(false),
        }
    }
}

impl CancellationFlag for CountingFlag {
    fn check(&self, at: &'static str) -> Result<(), CancellationError> {
        if self.fired.get() {
            self.polls_after_fire.set(self.polls_after_fire.get() + 1);
        }
        self.polls.set(self.polls.get() + 1);
        tree_sitter_graph::verif::emit(|| json!({"e": "poll", "at": at}));
        if self.cancel_at > 0 && self.polls.get() >= self.cancel_at {
            self.fired.set(true);
            return Err(CancellationError(at));
        }
        Ok(())
    }
}

/// interchange value -> real value (syntax nodes and graph nodes are not constructible here)
pub fn value_from_json(v: &J) -> Option<Value> {
    Some(match v["t"].as_str()? {
        "null" => Value::Null,
        "bool" => Value::Boolean(v["b"].as_bool()?),
        "int" => Value::Integer((v["hi"].as_u64()? * 65536 + v["lo"].as_u64()?) as u32),
        "str" => Value::String(v["s"].as_str()?.to_string()),
        "list" => Value::List(
            v["l"]
                .as_array()?
                .iter()
                .map(value_from_json)
                .collect::<Option<Vec<_>>>()?,
        ),
        "set" => Value::Set(
            v["e"]
                .as_array()?
                .iter()
                .map(value_from_json)
                .collect::<Option<BTreeSet<_>>>()?,
        ),
        _ => return None,
    })
}

/// real value -> interchange value; syntax nodes become 1-based preorder indices
pub fn value_to_json(v: &Value, graph: &Graph, src: &Src) -> J {
    match v {
        Value::Null => json!({"t": "null"}),
        Value::Boolean(b) => json!({"t": "bool", "b": b}),
        Value::Integer(i) => int_json("t", *i as u64),
        Value::String(s) => json!({"t": "str", "s": s}),
        Value::List(l) => {
            json!({"t": "list", "l": l.iter().map(|x| value_to_json(x, graph, src)).collect::<Vec<_>>()})
        }
        Value::Set(l) => {
            json!({"t": "set", "e": l.iter().map(|x| value_to_json(x, graph, src)).collect::<Vec<_>>()})
        }
        Value::SyntaxNode(r) => {
            let node = &graph[*r];
            json!({"t": "syn", "n": src.pre_of_id(node.id() as u64)})
        }
        Value::GraphNode(r) => json!({"t": "gn", "g": r.index()}),
    }
}

/// the crate's own JSON serialisation of a value (as found in hook events) -> interchange value
pub fn value_from_event(v: &J, src: &Src) -> J {
    match v["type"].as_str().unwrap_or("") {
        "null" => json!({"t": "null"}),
        "bool" => json!({"t": "bool", "b": v["bool"]}),
        "int" => int_json("t", v["int"].as_u64().unwrap_or(0)),
        "string" => json!({"t": "str", "s": v["string"]}),
        "list" => {
            json!({"t": "list", "l": v["values"].as_array().map(|a| a.iter().map(|x| value_from_event(x, src)).collect::<Vec<_>>()).unwrap_or_default()})
        }
        "set" => {
            json!({"t": "set", "e": v["values"].as_array().map(|a| a.iter().map(|x| value_from_event(x, src)).collect::<Vec<_>>()).unwrap_or_default()})
        }
        "syntaxNode" => json!({"t": "syn", "n": src.pre_of_id32(v["id"].as_u64().unwrap_or(0))}),
        "graphNode" => json!({"t": "gn", "g": v["id"]}),
        _ => json!({"t": "bad"}),
    }
}

pub fn project_graph(graph: &Graph, src: &Src) -> J {
    let mut nodes = Vec::new();
    for n in graph.iter_nodes() {
        let gn = &graph[n];
        let mut attrs = serde_json::Map::new();
        for (k, v) in gn.attributes.iter() {
            attrs.insert(k.as_str().to_string(), value_to_json(v, graph, src));
        }
        let mut out = Vec::new();
        for (sink, edge) in gn.iter_edges() {
            let mut ea = serde_json::Map::new();
            for (k, v) in edge.attributes.iter() {
                ea.insert(k.as_str().to_string(), value_to_json(v, graph, src));
            }
            out.push(json!({"sink": sink.index(), "attrs": J::Object(ea)}));
        }
        nodes.push(json!({"attrs": J::Object(attrs), "out": out}));
    }
    json!({"n": graph.node_count(), "nodes": nodes})
}

pub fn error_kind(e: &ExecutionError) -> String {
    let d = format!("{:?}", e);
    let end = d.find(|c: char| !(c.is_alphanumeric() || c == '_')).unwrap_or(d.len());
    d[..end].to_string()
}

/// context chain, outermost first, and the innermost (root-cause) error
pub fn error_chain(e: &ExecutionError) -> (Vec<J>, String) {
    let mut chain = Vec::new();
    let mut cur = e;
    loop {
        match cur {
            ExecutionError::InContext(ctx, inner) => {
                match ctx {
                    Context::Statement(stmts) => {
                        let v: Vec<J> = stmts
                            .iter()
                            .map(|s| {
                                json!({
                                    "sl": [s.statement_location.row, s.statement_location.column],
                                    "st": [s.stanza_location.row, s.stanza_location.column],
                                    "nk": s.node_kind,
                                    "np": [s.source_location.row, s.source_location.column],
                                })
                            })
                            .collect();
                        chain.push(json!({"ck": "stmt", "stmts": v}));
                    }
                    Context::Other(msg) => chain.push(json!({"ck": "other", "msg": msg})),
                }
                cur = inner;
            }
            other => return (chain, error_kind(other)),
        }
    }
}

pub struct RunCfg<'a> {
    pub lazy: bool,
    pub dbg: Option<(&'a str, &'a str, &'a str)>,
    pub cancel_at: usize,
}

/// interchange value -> real value, graph-node references resolved against `graph`
pub fn value_from_json_g(v: &J, graph: &Graph) -> Option<Value> {
    Some(match v["t"].as_str()? {
        "gn" => {
            let i = v["g"].as_u64()? as usize;
            Value::GraphNode(graph.iter_nodes().nth(i)?)
        }
        "list" => Value::List(
            v["l"].as_array()?.iter().map(|x| value_from_json_g(x, graph)).collect::<Option<Vec<_>>>()?,
        ),
        "set" => Value::Set(
            v["e"].as_array()?.iter().map(|x| value_from_json_g(x, graph)).collect::<Option<BTreeSet<_>>>()?,
        ),
        _ => value_from_json(v)?,
    })
}

pub fn globals_add_json(vars: &mut Variables, g: &J, graph: &Graph) -> Result<(), String> {
    if let Some(m) = g.as_object() {
        for (k, v) in m {
            let val = value_from_json_g(v, graph).ok_or_else(|| format!("bad global value {}", v))?;
            vars.add(Identifier::from(k.as_str()), val)
                .map_err(|_| "duplicate global".to_string())?;
        }
    }
    Ok(())
}

pub fn globals_from_json<'a>(g: &J, graph: &Graph) -> Result<Variables<'a>, String> {
    let mut vars = Variables::new();
    globals_add_json(&mut vars, g, graph)?;
    Ok(vars)
}

/// everything observable about the caller's variable sets through the public API
pub fn globals_snapshot(inner: &Variables, outer: &Variables, graph: &Graph, src: &Src) -> J {
    let mut a: Vec<(String, J)> = inner.iter().map(|(k, v)| (k.as_str().to_string(), value_to_json_lenient(v, graph, src))).collect();
    a.sort_by(|x, y| x.0.cmp(&y.0));
    let mut b: Vec<(String, J)> = outer.iter().map(|(k, v)| (k.as_str().to_string(), value_to_json_lenient(v, graph, src))).collect();
    b.sort_by(|x, y| x.0.cmp(&y.0));
    json!({"inner": a, "outer": b})
}

fn value_to_json_lenient(v: &Value, graph: &Graph, src: &Src) -> J {
    match v {
        Value::SyntaxNode(_) => json!({"t": "syn", "n": format!("{}", v)}),
        Value::List(l) => json!({"t": "list", "l": l.iter().map(|x| value_to_json_lenient(x, graph, src)).collect::<Vec<_>>()}),
        Value::Set(l) => json!({"t": "set", "e": l.iter().map(|x| value_to_json_lenient(x, graph, src)).collect::<Vec<_>>()}),
        _ => value_to_json(v, graph, src),
    }
}

/// File::try_visit_matches (strict and lazy) and Stanza::try_visit_matches, as plain data
pub fn visit_all(file: &File, src: &Src) -> J {
    let mut out = serde_json::Map::new();
    for (key, lazy) in [("strict", false), ("lazy", true)] {
        let mut v: Vec<J> = Vec::new();
        let r = std::panic::catch_unwind(std::panic::AssertUnwindSafe(|| {
            let _ = file.try_visit_matches::<(), _>(&src.tree, &src.text, lazy, |m| {
                let root = src.pre_of_id(m.full_capture().id() as u64);
                let mut caps = serde_json::Map::new();
                for (name, q, nodes) in m.named_captures() {
                    let ns: Vec<i64> = nodes.map(|n| src.pre_of_id(n.id() as u64)).collect();
                    caps.insert(name.to_string(), json!({"q": crate::oracle::quant_name(q), "nodes": ns}));
                }
                let ql = m.query_location();
                v.push(json!({"st": [ql.row, ql.column], "root": root, "caps": J::Object(caps)}));
                Ok(())
            });
        }));
        out.insert(key.to_string(), if r.is_ok() { json!(v) } else { json!("panic") });
    }
    let mut per = Vec::new();
    for stanza in &file.stanzas {
        let mut v: Vec<J> = Vec::new();
        let r = std::panic::catch_unwind(std::panic::AssertUnwindSafe(|| {
            let _ = stanza.try_visit_matches::<(), _>(&src.tree, &src.text, |m| {
                let root = src.pre_of_id(m.full_capture().id() as u64);
                let mut caps = serde_json::Map::new();
                for (name, q, nodes) in m.named_captures() {
                    let ns: Vec<i64> = nodes.map(|n| src.pre_of_id(n.id() as u64)).collect();
                    caps.insert(name.to_string(), json!({"q": crate::oracle::quant_name(q), "nodes": ns}));
                }
                v.push(json!({"root": root, "caps": J::Object(caps)}));
                Ok(())
            });
        }));
        per.push(if r.is_ok() { json!(v) } else { json!("panic") });
    }
    out.insert("stanzas".to_string(), json!(per));
    J::Object(out)
}

pub fn load(text: &str) -> Result<File, tree_sitter_graph::ParseError> {
    File::from_str(crate::oracle::language(), text)
}

fn translate_events(events: Vec<J>, src: &Src) -> Vec<J> {
    let mut out = Vec::new();
    for mut ev in events {
        let kind = ev["e"].as_str().unwrap_or("").to_string();
        match kind.as_str() {
            "match" => {
                let r = ev["root"].as_u64().map(|id| src.pre_of_id(id)).unwrap_or(-1);
                ev["root"] = json!(r);
            }
            "attr" => {
                let v = value_from_event(&ev["val"], src);
                ev["val"] = v;
                if ev.get("dst").is_none() {
                    ev["dst"] = json!(-1);
                }
            }
            "sget" => {
                let at = ev["at"].as_u64().map(|id| src.pre_of_id32(id)).unwrap_or(-1);
                ev["at"] = json!(at);
                let node = ev["node"].as_u64().map(|id| src.pre_of_id32(id)).unwrap_or(-1);
                ev["node"] = json!(node);
            }
            "sadd" | "sset" | "sdef" => {
                if ev.get("node").is_some() {
                    let node = ev["node"].as_u64().map(|id| src.pre_of_id32(id)).unwrap_or(-1);
                    ev["node"] = json!(node);
                }
            }
            _ => {}
        }
        out.push(ev);
    }
    out
}

/// Executes `file` into `graph` with hooks on.  Returns (events, outcome).
pub fn execute_into<'tree>(
    file: &File,
    graph: &mut Graph<'tree>,
    src: &'tree Src,
    globals: &Variables,
    cfg: &RunCfg,
    dsl: &str,
) -> (Vec<J>, J) {
    let functions = Functions::stdlib();
    let mut config = ExecutionConfig::new(&functions, globals).lazy(cfg.lazy);
    if let Some((l, v, m)) = cfg.dbg {
        config = config.debug_attributes(l.into(), v.into(), m.into());
    }
    let flag = CountingFlag::new(cfg.cancel_at);
    tree_sitter_graph::verif::start();
    let result = std::panic::catch_unwind(std::panic::AssertUnwindSafe(|| {
        file.execute_into(graph, &src.tree, &src.text, &config, &flag)
    }));
    let raw = tree_sitter_graph::verif::take();
    let truncated = raw.len() > MAX_EVENTS;
    let events = translate_events(raw.into_iter().take(MAX_EVENTS).collect(), src);
    let polls = flag.polls.get();
    let outcome = match result {
        Err(p) => {
            let msg = if let Some(s) = p.downcast_ref::<&str>() {
                s.to_string()
            } else if let Some(s) = p.downcast_ref::<String>() {
                s.clone()
            } else {
                "?".to_string()
            };
            json!({"status": "panic", "msg": msg, "polls": polls, "truncated": truncated})
        }
        Ok(Ok(())) => {
            // reading the result through the public API (every node, edge and attribute value, syntax nodes resolved through
            // the graph) belongs to the observation: a panic here is an outcome of the library, not of the harness
            match std::panic::catch_unwind(std::panic::AssertUnwindSafe(|| project_graph(graph, src))) {
                Ok(g) => json!({"status": "ok", "graph": g, "polls": polls, "truncated": truncated,
                                "polls_after_fire": flag.polls_after_fire.get()}),
                Err(p) => {
                    let msg = p.downcast_ref::<&str>().map(|s| s.to_string()).or_else(|| p.downcast_ref::<String>().cloned()).unwrap_or_else(|| "?".to_string());
                    json!({"status": "panic", "msg": format!("while reading the returned graph: {}", msg), "polls": polls, "truncated": truncated})
                }
            }
        }
        Ok(Err(e)) => {
            let (chain, kind) = error_chain(&e);
            let display = format!("{}", e);
            let pretty_res = std::panic::catch_unwind(std::panic::AssertUnwindSafe(|| {
                format!(
                    "{}",
                    e.display_pretty(
                        std::path::Path::new("src.py"),
                        &src.text,
                        std::path::Path::new("prog.tsg"),
                        dsl,
                    )
                )
            }));
            let pretty = pretty_res.is_ok();
            let pretty_text = pretty_res.unwrap_or_default();
            let status = if matches!(e, ExecutionError::Cancelled(_)) {
                "cancelled"
            } else if kind == "Cancelled" {
                "cancelled_wrapped"
            } else {
                "err"
            };
            json!({"status": status, "err": {"kind": kind, "chain": chain, "display": display, "pretty_ok": pretty, "pretty": pretty_text},
                   "graph": project_graph(graph, src),
                   "polls": polls, "truncated": truncated, "polls_after_fire": flag.polls_after_fire.get()})
        }
    };
    (events, outcome)
}

pub fn silence_panics() {
    std::panic::set_hook(Box::new(|_| {}));
}
