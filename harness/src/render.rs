//! AST (interchange JSON, DESIGN Appendix F) -> DSL text.  While rendering, every `loc` field of
//! the AST is set to the zero-based (row, column-in-characters) position of the construct's first
//! character, exactly where the language reference says the location of that construct is.
//!
//! A `Layout` decides what goes into each gap between tokens; the default layout is canonical
//! (single spaces, one statement per line); the random layout inserts tabs, newlines and comments.

use crate::rng::Rng;
use serde_json::{json, Value as J};

pub struct Renderer {
    pub out: String,
    row: usize,
    col: usize,
    rng: Option<Rng>,
    indent: usize,
}

/// `raw`: line breaks and tabs are written as they are (a string literal may span lines)
pub fn escape_string_raw(s: &str, raw: bool) -> String {
    let mut o = String::from("\"");
    for ch in s.chars() {
        match ch {
            '\n' | '\t' if raw => o.push(ch),
            '"' => o.push_str("\\\""),
            '\\' => o.push_str("\\\\"),
            '\n' => o.push_str("\\n"),
            '\t' => o.push_str("\\t"),
            '\r' => o.push_str("\\r"),
            '\0' => o.push_str("\\0"),
            c => o.push(c),
        }
    }
    o.push('"');
    o
}

pub fn escape_string(s: &str) -> String {
    let mut o = String::from("\"");
    for ch in s.chars() {
        match ch {
            '"' => o.push_str("\\\""),
            '\\' => o.push_str("\\\\"),
            '\n' => o.push_str("\\n"),
            '\t' => o.push_str("\\t"),
            '\r' => o.push_str("\\r"),
            '\0' => o.push_str("\\0"),
            c => o.push(c),
        }
    }
    o.push('"');
    o
}

pub fn int_of(e: &J) -> u64 {
    e["hi"].as_u64().unwrap_or(0) * 65536 + e["lo"].as_u64().unwrap_or(0)
}

pub fn int_json(k: &str, v: u64) -> J {
    if k == "k" {
        json!({"k": "int", "hi": v / 65536, "lo": v % 65536})
    } else {
        json!({"t": "int", "hi": v / 65536, "lo": v % 65536})
    }
}

impl Renderer {
    pub fn new(rng: Option<Rng>) -> Renderer {
        Renderer {
            out: String::new(),
            row: 0,
            col: 0,
            rng,
            indent: 0,
        }
    }

    fn put(&mut self, s: &str) {
        for ch in s.chars() {
            if ch == '\n' {
                self.row += 1;
                self.col = 0;
            } else {
                self.col += 1;
            }
        }
        self.out.push_str(s);
    }

    fn loc(&self) -> J {
        json!([self.row, self.col])
    }

    /// mandatory separation (at least one whitespace character)
    fn sp(&mut self) {
        let choice = match &mut self.rng {
            None => 0,
            Some(r) => r.below(10),
        };
        match choice {
            0..=5 => self.put(" "),
            6 => self.put("  "),
            7 => self.put("\t"),
            8 => {
                self.put("\n");
                let ind = " ".repeat(self.indent * 2);
                self.put(&ind);
            }
            _ => {
                self.put(" ; c\u{00f6}mment \u{4e2d}\n");
                let ind = " ".repeat(self.indent * 2);
                self.put(&ind);
            }
        }
    }

    /// optional separation (may be empty)
    fn osp(&mut self, default_space: bool) {
        match &mut self.rng {
            None => {
                if default_space {
                    self.put(" ")
                }
            }
            Some(r) => {
                if r.chance(1, 3) {
                    // nothing
                } else {
                    self.sp()
                }
            }
        }
    }

    /// separation before `->`: identifiers may contain `-`, so an identifier-like token must not touch the arrow
    fn before_arrow(&mut self) {
        let last = self.out.chars().last().unwrap_or(' ');
        if last == '_' || last == '-' || last.is_alphanumeric() {
            self.sp()
        } else {
            self.osp(true)
        }
    }

    fn nl(&mut self) {
        match &mut self.rng {
            None => {
                self.put("\n");
                let ind = " ".repeat(self.indent * 2);
                self.put(&ind);
            }
            Some(_) => self.sp(),
        }
    }

    pub fn file(&mut self, f: &mut J) {
        let ng = f["globals"].as_array().map(|a| a.len()).unwrap_or(0);
        for i in 0..ng {
            self.put("global");
            self.sp();
            f["globals"][i]["loc"] = self.loc();
            let name = f["globals"][i]["name"].as_str().unwrap().to_string();
            self.put(&name);
            match f["globals"][i]["q"].as_str().unwrap() {
                "opt" => self.put("?"),
                "star" => self.put("*"),
                "plus" => self.put("+"),
                _ => {}
            }
            if f["globals"][i]["has_default"].as_bool().unwrap_or(false) {
                self.sp();
                self.put("=");
                self.osp(true);
                let d = f["globals"][i]["default"].as_str().unwrap().to_string();
                self.put(&escape_string(&d));
            }
            self.put("\n");
        }
        let ni = f["inherit"].as_array().map(|a| a.len()).unwrap_or(0);
        for i in 0..ni {
            self.put("inherit");
            self.osp(true);
            self.put(".");
            let name = f["inherit"][i].as_str().unwrap().to_string();
            self.put(&name);
            self.put("\n");
        }
        let ns = f["shorthands"].as_array().map(|a| a.len()).unwrap_or(0);
        for i in 0..ns {
            self.put("attribute");
            self.sp();
            f["shorthands"][i]["loc"] = self.loc();
            let name = f["shorthands"][i]["name"].as_str().unwrap().to_string();
            self.put(&name);
            self.osp(true);
            self.put("=");
            self.osp(true);
            f["shorthands"][i]["var"]["loc"] = self.loc();
            let v = f["shorthands"][i]["var"]["name"].as_str().unwrap().to_string();
            self.put(&v);
            self.osp(true);
            self.put("=>");
            self.osp(true);
            let mut attrs = f["shorthands"][i]["attrs"].take();
            self.attrs(&mut attrs);
            f["shorthands"][i]["attrs"] = attrs;
            self.put("\n");
        }
        let nst = f["stanzas"].as_array().map(|a| a.len()).unwrap_or(0);
        for i in 0..nst {
            if self.col != 0 {
                self.put("\n");
            }
            f["stanzas"][i]["loc"] = self.loc();
            let q = f["stanzas"][i]["qtext"].as_str().unwrap().to_string();
            self.put(&q);
            let mut stmts = f["stanzas"][i]["stmts"].take();
            self.block(&mut stmts);
            f["stanzas"][i]["stmts"] = stmts;
            self.put("\n");
        }
    }

    fn block(&mut self, stmts: &mut J) {
        self.put("{");
        self.indent += 1;
        let n = stmts.as_array().map(|a| a.len()).unwrap_or(0);
        for i in 0..n {
            self.nl();
            self.stmt(&mut stmts[i]);
        }
        self.indent -= 1;
        self.nl();
        self.put("}");
    }

    fn stmt(&mut self, s: &mut J) {
        s["loc"] = self.loc();
        let k = s["k"].as_str().unwrap().to_string();
        match k.as_str() {
            "let" | "var" | "set" => {
                self.put(&k);
                self.sp();
                self.variable(&mut s["var"]);
                self.osp(true);
                self.put("=");
                self.osp(true);
                self.expr(&mut s["value"]);
            }
            "node" => {
                self.put("node");
                self.sp();
                self.variable(&mut s["var"]);
            }
            "edge" => {
                self.put("edge");
                self.sp();
                self.expr(&mut s["src"]);
                self.before_arrow();
                self.put("->");
                self.osp(true);
                self.expr(&mut s["dst"]);
            }
            "attrn" => {
                self.put("attr");
                self.osp(true);
                self.put("(");
                self.osp(false);
                self.expr(&mut s["node"]);
                self.osp(false);
                self.put(")");
                self.osp(true);
                self.attrs(&mut s["attrs"]);
            }
            "attre" => {
                self.put("attr");
                self.osp(true);
                self.put("(");
                self.osp(false);
                self.expr(&mut s["src"]);
                self.before_arrow();
                self.put("->");
                self.osp(true);
                self.expr(&mut s["dst"]);
                self.osp(false);
                self.put(")");
                self.osp(true);
                self.attrs(&mut s["attrs"]);
            }
            "print" => {
                self.put("print");
                self.sp();
                let n = s["values"].as_array().unwrap().len();
                for i in 0..n {
                    if i > 0 {
                        self.osp(false);
                        self.put(",");
                        self.osp(true);
                    }
                    self.expr(&mut s["values"][i]);
                }
            }
            "scan" => {
                self.put("scan");
                self.sp();
                self.expr(&mut s["value"]);
                self.osp(true);
                self.put("{");
                self.indent += 1;
                let n = s["arms"].as_array().unwrap().len();
                let scan_loc = s["loc"].clone();
                for i in 0..n {
                    self.nl();
                    // the reference gives a scan arm the location of the enclosing scan statement
                    s["arms"][i]["loc"] = scan_loc.clone();
                    let re = s["arms"][i]["re"].as_str().unwrap().to_string();
                    self.put(&escape_string(&re));
                    self.osp(true);
                    let mut stmts = s["arms"][i]["stmts"].take();
                    self.block(&mut stmts);
                    s["arms"][i]["stmts"] = stmts;
                }
                self.indent -= 1;
                self.nl();
                self.put("}");
            }
            "if" => {
                let n = s["arms"].as_array().unwrap().len();
                for i in 0..n {
                    let nconds = s["arms"][i]["conds"].as_array().unwrap().len();
                    if i == 0 {
                        s["arms"][i]["loc"] = s["loc"].clone();
                        self.put("if");
                        self.sp();
                    } else if nconds > 0 {
                        self.osp(true);
                        s["arms"][i]["loc"] = self.loc();
                        self.put("elif");
                        self.sp();
                    } else {
                        self.osp(true);
                        s["arms"][i]["loc"] = self.loc();
                        self.put("else");
                        self.osp(true);
                    }
                    for j in 0..nconds {
                        if j > 0 {
                            self.osp(false);
                            self.put(",");
                            self.osp(true);
                        }
                        s["arms"][i]["conds"][j]["loc"] = self.loc();
                        let ck = s["arms"][i]["conds"][j]["k"].as_str().unwrap().to_string();
                        if ck == "some" || ck == "none" {
                            self.put(&ck);
                            self.sp();
                        }
                        self.expr(&mut s["arms"][i]["conds"][j]["value"]);
                    }
                    if nconds > 0 {
                        self.osp(true);
                    }
                    let mut stmts = s["arms"][i]["stmts"].take();
                    self.block(&mut stmts);
                    s["arms"][i]["stmts"] = stmts;
                }
            }
            "for" => {
                self.put("for");
                self.sp();
                s["var"]["loc"] = self.loc();
                let v = s["var"]["name"].as_str().unwrap().to_string();
                self.put(&v);
                self.sp();
                self.put("in");
                self.sp();
                self.expr(&mut s["value"]);
                self.osp(true);
                let mut stmts = s["stmts"].take();
                self.block(&mut stmts);
                s["stmts"] = stmts;
            }
            other => panic!("unknown statement kind {}", other),
        }
    }

    fn attrs(&mut self, attrs: &mut J) {
        let n = attrs.as_array().unwrap().len();
        for i in 0..n {
            if i > 0 {
                self.osp(false);
                self.put(",");
                self.osp(true);
            }
            let name = attrs[i]["name"].as_str().unwrap().to_string();
            self.put(&name);
            let bare = attrs[i]["value"]["k"] == "true" && attrs[i]["bare"].as_bool().unwrap_or(false);
            if !bare {
                self.osp(true);
                self.put("=");
                self.osp(true);
                self.expr(&mut attrs[i]["value"]);
            }
        }
    }

    fn variable(&mut self, v: &mut J) {
        self.expr(v)
    }

    fn expr(&mut self, e: &mut J) {
        let k = e["k"].as_str().unwrap().to_string();
        match k.as_str() {
            "null" => self.put("#null"),
            "true" => self.put("#true"),
            "false" => self.put("#false"),
            "int" => {
                let v = int_of(e);
                self.put(&format!("{}", v));
            }
            "str" => {
                let s = e["v"].as_str().unwrap().to_string();
                let raw = e["raw"].as_bool().unwrap_or(false)
                    || match &mut self.rng {
                        Some(r) => r.chance(1, 3),
                        None => false,
                    };
                self.put(&escape_string_raw(&s, raw));
            }
            "list" | "set" => {
                let (o, c) = if k == "list" { ("[", "]") } else { ("{", "}") };
                self.put(o);
                let n = e["elems"].as_array().unwrap().len();
                for i in 0..n {
                    if i > 0 {
                        self.put(",");
                        self.osp(true);
                    } else {
                        self.osp(false);
                    }
                    self.expr(&mut e["elems"][i]);
                    self.osp(false);
                }
                if n > 0 {
                    let trailing = match &mut self.rng {
                        Some(r) => n >= 2 && r.chance(1, 4),
                        None => false,
                    };
                    if trailing {
                        self.put(",");
                        self.osp(false);
                    }
                }
                self.put(c);
            }
            "listc" | "setc" => {
                let (o, c) = if k == "listc" { ("[", "]") } else { ("{", "}") };
                e["loc"] = self.loc();
                self.put(o);
                self.osp(true);
                self.expr(&mut e["elem"]);
                self.sp();
                self.put("for");
                self.sp();
                e["var"]["loc"] = self.loc();
                let v = e["var"]["name"].as_str().unwrap().to_string();
                self.put(&v);
                self.sp();
                self.put("in");
                self.sp();
                self.expr(&mut e["value"]);
                self.osp(true);
                self.put(c);
            }
            "cap" => {
                e["loc"] = self.loc();
                self.put("@");
                let n = e["name"].as_str().unwrap().to_string();
                self.put(&n);
            }
            "var" => {
                e["loc"] = self.loc();
                let n = e["name"].as_str().unwrap().to_string();
                self.put(&n);
            }
            "svar" => {
                self.expr(&mut e["scope"]);
                self.osp(false);
                self.put(".");
                self.osp(false);
                e["loc"] = self.loc();
                let n = e["name"].as_str().unwrap().to_string();
                self.put(&n);
            }
            "call" => {
                self.put("(");
                self.osp(false);
                let f = e["fn"].as_str().unwrap().to_string();
                self.put(&f);
                let n = e["args"].as_array().unwrap().len();
                for i in 0..n {
                    self.sp();
                    self.expr(&mut e["args"][i]);
                }
                self.osp(false);
                self.put(")");
            }
            "rcap" => {
                let i = e["i"].as_u64().unwrap();
                self.put(&format!("${}", i));
            }
            other => panic!("unknown expression kind {}", other),
        }
    }
}

/// Renders `file` (filling in its `loc` fields) and returns the text.
pub fn render(file: &mut J, rng: Option<Rng>) -> String {
    let mut r = Renderer::new(rng);
    r.file(file);
    r.out
}
