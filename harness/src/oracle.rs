//! The trusted base, consulted directly: tree-sitter (trees, query matches) and the regex crate.
//! NOTHING in this module uses tree-sitter-graph.  It turns trees, matches and regex behaviour into
//! plain tables that the TLA+ specification consumes, so that "the same tree" and "the same match"
//! mean the same thing on the specification side and on the implementation side.

use serde_json::{json, Value as J};
use std::collections::HashMap;
use streaming_iterator::StreamingIterator;
use tree_sitter::{CaptureQuantifier, Language, Node, Parser, Query, QueryCursor, Tree};

pub const ROOT_CAPTURE: &str = "__vroot__";

pub fn language() -> Language {
    tree_sitter_python::LANGUAGE.into()
}

pub struct Src {
    pub name: String,
    pub text: String,
    pub tree: Tree,
    /// node.id() -> 1-based preorder index
    pub id2pre: HashMap<usize, usize>,
    /// (node.id() as u32) -> 1-based preorder index (tsg truncates ids to u32); None on collision
    pub id32pre: HashMap<u32, Option<usize>>,
    pub n_nodes: usize,
}

pub fn parse_source(name: &str, text: &str) -> Src {
    let mut parser = Parser::new();
    parser.set_language(&language()).expect("language");
    let tree = parser.parse(text, None).expect("parse");
    let mut id2pre = HashMap::new();
    let mut id32pre: HashMap<u32, Option<usize>> = HashMap::new();
    let mut n = 0usize;
    {
        let mut stack = vec![tree.root_node()];
        while let Some(node) = stack.pop() {
            n += 1;
            id2pre.insert(node.id(), n);
            id32pre
                .entry(node.id() as u32)
                .and_modify(|e| *e = None)
                .or_insert(Some(n));
            let mut kids: Vec<Node> = Vec::new();
            let mut c = node.walk();
            for k in node.children(&mut c) {
                kids.push(k);
            }
            for k in kids.into_iter().rev() {
                stack.push(k);
            }
        }
    }
    Src {
        name: name.to_string(),
        text: text.to_string(),
        tree,
        id2pre,
        id32pre,
        n_nodes: n,
    }
}

impl Src {
    pub fn pre(&self, node: &Node) -> usize {
        *self.id2pre.get(&node.id()).expect("node of another tree")
    }

    pub fn pre_of_id(&self, id: u64) -> i64 {
        self.id2pre.get(&(id as usize)).map(|x| *x as i64).unwrap_or(-1)
    }

    pub fn pre_of_id32(&self, id: u64) -> i64 {
        match self.id32pre.get(&(id as u32)) {
            Some(Some(x)) => *x as i64,
            _ => -1,
        }
    }

    /// nodes in preorder (index 0 = preorder 1)
    pub fn nodes(&self) -> Vec<Node<'_>> {
        let mut out = Vec::new();
        let mut stack = vec![self.tree.root_node()];
        while let Some(node) = stack.pop() {
            out.push(node);
            let mut kids: Vec<Node> = Vec::new();
            let mut c = node.walk();
            for k in node.children(&mut c) {
                kids.push(k);
            }
            for k in kids.into_iter().rev() {
                stack.push(k);
            }
        }
        out
    }

    /// The table the specification reads.  Positions are tree-sitter's own (columns in bytes).
    pub fn table(&self) -> J {
        let nodes = self.nodes();
        let mut out = Vec::new();
        for node in &nodes {
            let parent = node.parent().map(|p| self.pre(&p)).unwrap_or(0);
            let mut nci: i64 = -1;
            if let Some(p) = node.parent() {
                let mut c = p.walk();
                for (i, k) in p.named_children(&mut c).enumerate() {
                    if k == *node {
                        nci = i as i64;
                        break;
                    }
                }
            }
            let mut c = node.walk();
            let children: Vec<usize> = node.children(&mut c).map(|k| self.pre(&k)).collect();
            out.push(json!({
                "parent": parent,
                "kind": node.kind(),
                "named": node.is_named(),
                "sr": node.start_position().row,
                "sc": node.start_position().column,
                "er": node.end_position().row,
                "ec": node.end_position().column,
                "sb": node.start_byte(),
                "eb": node.end_byte(),
                "text": &self.text[node.byte_range()],
                "nci": nci,
                "ncc": node.named_child_count(),
                "err": node.is_error(),
                "miss": node.is_missing(),
                "children": children,
            }));
        }
        json!({"name": self.name, "text": self.text, "nodes": out})
    }
}

pub fn quant_name(q: CaptureQuantifier) -> &'static str {
    match q {
        CaptureQuantifier::Zero => "zero",
        CaptureQuantifier::ZeroOrOne => "opt",
        CaptureQuantifier::ZeroOrMore => "star",
        CaptureQuantifier::One => "one",
        CaptureQuantifier::OneOrMore => "plus",
    }
}

pub struct QInfo {
    pub text: String,
    pub query: Query,
    /// user capture names (without the root capture) with quantifiers
    pub caps: Vec<(String, &'static str)>,
}

/// Compiles one stanza pattern as written by the user, with our own root capture appended.
pub fn compile_query(text: &str) -> Result<QInfo, String> {
    let full = format!("{}@{}", text, ROOT_CAPTURE);
    let query = Query::new(&language(), &full).map_err(|e| format!("{:?}", e))?;
    if query.pattern_count() != 1 {
        return Err(format!("{} patterns", query.pattern_count()));
    }
    let quants = query.capture_quantifiers(0);
    let mut caps = Vec::new();
    for (i, name) in query.capture_names().iter().enumerate() {
        if *name != ROOT_CAPTURE {
            caps.push((name.to_string(), quant_name(quants[i])));
        }
    }
    Ok(QInfo {
        text: text.to_string(),
        query,
        caps,
    })
}

#[derive(Clone, Debug, PartialEq, Eq)]
pub struct OMatch {
    pub root: Vec<usize>,
    pub caps: Vec<(String, Vec<usize>)>,
}

impl OMatch {
    pub fn to_json(&self) -> J {
        let mut m = serde_json::Map::new();
        for (k, v) in &self.caps {
            m.insert(k.clone(), json!(v));
        }
        // "nroot" = number of nodes tree-sitter bound to the appended root capture (1 in the normal case)
        json!({"root": self.root.first().copied().unwrap_or(0), "nroot": self.root.len(), "caps": J::Object(m)})
    }
}

fn collect(src: &Src, query: &Query, names: &[String]) -> Vec<(usize, OMatch)> {
    let mut cursor = QueryCursor::new();
    let mut out = Vec::new();
    let mut it = cursor.matches(query, src.tree.root_node(), src.text.as_bytes());
    let root_idx = query.capture_index_for_name(ROOT_CAPTURE);
    while let Some(m) = it.next() {
        let mut caps = Vec::new();
        for name in names {
            let nodes: Vec<usize> = match query.capture_index_for_name(name) {
                Some(ix) => m.nodes_for_capture_index(ix).map(|n| src.pre(&n)).collect(),
                None => Vec::new(),
            };
            caps.push((name.clone(), nodes));
        }
        let root: Vec<usize> = match root_idx {
            Some(ix) => m.nodes_for_capture_index(ix).map(|n| src.pre(&n)).collect(),
            None => Vec::new(),
        };
        out.push((m.pattern_index, OMatch { root, caps }));
    }
    out
}

/// All matches of one stanza pattern, in cursor order.
pub fn stanza_matches(src: &Src, q: &QInfo) -> Vec<OMatch> {
    let names: Vec<String> = q.caps.iter().map(|c| c.0.clone()).collect();
    collect(src, &q.query, &names).into_iter().map(|x| x.1).collect()
}

/// Matches of the query merged from all stanza patterns, in cursor order: (stanza index (0-based), match).
/// Built from the user's pattern texts only.
pub fn merged_matches(src: &Src, qs: &[&QInfo]) -> Result<Vec<(usize, OMatch)>, String> {
    let mut text = String::new();
    for q in qs {
        text += &q.text;
        text += "@";
        text += ROOT_CAPTURE;
        text += "\n";
    }
    let query = Query::new(&language(), &text).map_err(|e| format!("{:?}", e))?;
    let mut cursor = QueryCursor::new();
    let mut out = Vec::new();
    let mut it = cursor.matches(&query, src.tree.root_node(), src.text.as_bytes());
    let root_idx = query.capture_index_for_name(ROOT_CAPTURE);
    while let Some(m) = it.next() {
        let q = qs[m.pattern_index];
        let mut caps = Vec::new();
        for (name, _) in &q.caps {
            let nodes: Vec<usize> = match query.capture_index_for_name(name) {
                Some(ix) => m.nodes_for_capture_index(ix).map(|n| src.pre(&n)).collect(),
                None => Vec::new(),
            };
            caps.push((name.clone(), nodes));
        }
        let root: Vec<usize> = match root_idx {
            Some(ix) => m.nodes_for_capture_index(ix).map(|n| src.pre(&n)).collect(),
            None => Vec::new(),
        };
        out.push((m.pattern_index, OMatch { root, caps }));
    }
    Ok(out)
}

/// char offset -> byte offset table of a string (len+1 entries)
pub fn char_offsets(s: &str) -> Vec<usize> {
    let mut v: Vec<usize> = s.char_indices().map(|(i, _)| i).collect();
    v.push(s.len());
    v
}

fn byte_to_char(offs: &[usize], b: usize) -> usize {
    offs.binary_search(&b).unwrap_or_else(|x| x)
}

/// Behaviour of one regex on every suffix of one subject (offsets in characters):
/// entry o (0-based char offset) = first match of the regex on subject[o..].
pub fn regex_table(re_text: &str, subj: &str) -> Option<J> {
    let re = regex::Regex::new(re_text).ok()?;
    let offs = char_offsets(subj);
    let nchars = offs.len() - 1;
    let mut tab = Vec::new();
    for o in 0..nchars {
        let suffix = &subj[offs[o]..];
        let soffs = char_offsets(suffix);
        match re.captures(suffix) {
            None => tab.push(json!({"m": false, "s": 0, "e": 0, "g": []})),
            Some(c) => {
                let m0 = c.get(0).unwrap();
                let groups: Vec<String> = c
                    .iter()
                    .map(|g| g.map(|m| m.as_str().to_string()).unwrap_or_default())
                    .collect();
                tab.push(json!({
                    "m": true,
                    "s": byte_to_char(&soffs, m0.start()),
                    "e": byte_to_char(&soffs, m0.end()),
                    "g": groups,
                }));
            }
        }
    }
    Some(json!({"re": re_text, "subj": subj, "nullable": re.captures("").is_some(), "tab": tab}))
}

/// Is every character of `s` in the Basic Multilingual Plane (so that TLC's UTF-16 string length
/// equals the number of characters)?
pub fn is_bmp(s: &str) -> bool {
    s.chars().all(|c| (c as u32) < 0x10000)
}
