//! The AST walker: the library's public `ast::File` -> interchange AST (DESIGN Appendix F), locations included.
//! Independent of the renderer and of the generator.

use serde_json::{json, Value as J};
use tree_sitter::CaptureQuantifier;
use tree_sitter_graph::ast;
use tree_sitter_graph::Location;

fn loc(l: &Location) -> J {
    json!([l.row, l.column])
}

fn quant(q: CaptureQuantifier) -> &'static str {
    match q {
        CaptureQuantifier::Zero => "zero",
        CaptureQuantifier::ZeroOrOne => "opt",
        CaptureQuantifier::ZeroOrMore => "star",
        CaptureQuantifier::One => "one",
        CaptureQuantifier::OneOrMore => "plus",
    }
}

pub fn file(f: &ast::File) -> J {
    let globals: Vec<J> = f
        .globals
        .iter()
        .map(|g| json!({"name": g.name.as_str(), "q": quant(g.quantifier), "has_default": g.default.is_some(),
                        "default": g.default.clone().unwrap_or_default(), "loc": loc(&g.location)}))
        .collect();
    let mut inherit: Vec<String> = f.inherited_variables.iter().map(|i| i.as_str().to_string()).collect();
    inherit.sort();
    let mut shorthands: Vec<J> = f
        .shorthands
        .iter()
        .map(|s| json!({"name": s.name.as_str(), "var": {"name": s.variable.name.as_str(), "loc": loc(&s.variable.location)},
                        "attrs": s.attributes.iter().map(attribute).collect::<Vec<_>>(), "loc": loc(&s.location)}))
        .collect();
    shorthands.sort_by_key(|s| s["name"].as_str().unwrap_or("").to_string());
    let stanzas: Vec<J> = f
        .stanzas
        .iter()
        .map(|s| {
            let mut caps: Vec<String> = s.query.capture_names().iter().map(|c| c.to_string()).filter(|c| c != "__tsg__full_match").collect();
            caps.sort();
            json!({"caps": caps, "loc": loc(&s.range.start), "stmts": s.statements.iter().map(statement).collect::<Vec<_>>()})
        })
        .collect();
    json!({"globals": globals, "inherit": inherit, "shorthands": shorthands, "stanzas": stanzas})
}

fn attribute(a: &ast::Attribute) -> J {
    json!({"name": a.name.as_str(), "value": expression(&a.value)})
}

fn stmts(v: &[ast::Statement]) -> Vec<J> {
    v.iter().map(statement).collect()
}

fn statement(s: &ast::Statement) -> J {
    use ast::Statement::*;
    match s {
        DeclareImmutable(x) => json!({"k": "let", "var": variable(&x.variable), "value": expression(&x.value), "loc": loc(&x.location)}),
        DeclareMutable(x) => json!({"k": "var", "var": variable(&x.variable), "value": expression(&x.value), "loc": loc(&x.location)}),
        Assign(x) => json!({"k": "set", "var": variable(&x.variable), "value": expression(&x.value), "loc": loc(&x.location)}),
        CreateGraphNode(x) => json!({"k": "node", "var": variable(&x.node), "loc": loc(&x.location)}),
        AddGraphNodeAttribute(x) => json!({"k": "attrn", "node": expression(&x.node), "attrs": x.attributes.iter().map(attribute).collect::<Vec<_>>(), "loc": loc(&x.location)}),
        CreateEdge(x) => json!({"k": "edge", "src": expression(&x.source), "dst": expression(&x.sink), "loc": loc(&x.location)}),
        AddEdgeAttribute(x) => json!({"k": "attre", "src": expression(&x.source), "dst": expression(&x.sink),
                                      "attrs": x.attributes.iter().map(attribute).collect::<Vec<_>>(), "loc": loc(&x.location)}),
        Scan(x) => json!({"k": "scan", "value": expression(&x.value), "loc": loc(&x.location),
                          "arms": x.arms.iter().map(|a| json!({"re": a.regex.as_str(), "stmts": stmts(&a.statements), "loc": loc(&a.location)})).collect::<Vec<_>>()}),
        Print(x) => json!({"k": "print", "values": x.values.iter().map(expression).collect::<Vec<_>>(), "loc": loc(&x.location)}),
        If(x) => json!({"k": "if", "loc": loc(&x.location),
                        "arms": x.arms.iter().map(|a| json!({"conds": a.conditions.iter().map(condition).collect::<Vec<_>>(),
                                                              "stmts": stmts(&a.statements), "loc": loc(&a.location)})).collect::<Vec<_>>()}),
        ForIn(x) => json!({"k": "for", "var": {"name": x.variable.name.as_str(), "loc": loc(&x.variable.location)},
                           "value": expression(&x.value), "stmts": stmts(&x.statements), "loc": loc(&x.location)}),
    }
}

fn condition(c: &ast::Condition) -> J {
    match c {
        ast::Condition::Some { value, location } => json!({"k": "some", "value": expression(value), "loc": loc(location)}),
        ast::Condition::None { value, location } => json!({"k": "none", "value": expression(value), "loc": loc(location)}),
        ast::Condition::Bool { value, location } => json!({"k": "bool", "value": expression(value), "loc": loc(location)}),
    }
}

fn variable(v: &ast::Variable) -> J {
    match v {
        ast::Variable::Unscoped(u) => json!({"k": "var", "name": u.name.as_str(), "loc": loc(&u.location)}),
        ast::Variable::Scoped(s) => json!({"k": "svar", "scope": expression(&s.scope), "name": s.name.as_str(), "loc": loc(&s.location)}),
    }
}

fn expression(e: &ast::Expression) -> J {
    use ast::Expression::*;
    match e {
        FalseLiteral => json!({"k": "false"}),
        NullLiteral => json!({"k": "null"}),
        TrueLiteral => json!({"k": "true"}),
        IntegerConstant(c) => json!({"k": "int", "hi": c.value / 65536, "lo": c.value % 65536}),
        StringConstant(c) => json!({"k": "str", "v": c.value}),
        ListLiteral(l) => json!({"k": "list", "elems": l.elements.iter().map(expression).collect::<Vec<_>>()}),
        SetLiteral(l) => json!({"k": "set", "elems": l.elements.iter().map(expression).collect::<Vec<_>>()}),
        ListComprehension(c) => json!({"k": "listc", "elem": expression(&c.element), "var": {"name": c.variable.name.as_str(), "loc": loc(&c.variable.location)},
                                       "value": expression(&c.value), "loc": loc(&c.location)}),
        SetComprehension(c) => json!({"k": "setc", "elem": expression(&c.element), "var": {"name": c.variable.name.as_str(), "loc": loc(&c.variable.location)},
                                      "value": expression(&c.value), "loc": loc(&c.location)}),
        Capture(c) => json!({"k": "cap", "name": c.name.as_str(), "loc": loc(&c.location)}),
        Variable(v) => variable(v),
        Call(c) => json!({"k": "call", "fn": c.function.as_str(), "args": c.parameters.iter().map(expression).collect::<Vec<_>>()}),
        RegexCapture(c) => json!({"k": "rcap", "i": c.match_index}),
    }
}
