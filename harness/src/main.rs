//! tsgv — harness binding the TLA+ specification in /verif/spec to the real tree-sitter-graph.
//!
//!   tsgv sources <dir> <out.json>                      tree tables of every source (oracle)
//!   tsgv queries <queries.json> <out.json>             capture names/quantifiers of the query pool
//!   tsgv gen <dir> <queries.json> <n> <seed> <out>     random cases (unprepared)
//!   tsgv run <dir> <in.ndjson> <out.ndjson> [layout-seed]   prepare + execute cases with hooks on

mod api;
mod cases;
mod exec;
mod gen;
mod oracle;
mod render;
mod rng;
mod walk;

use serde_json::{json, Value as J};
use std::io::{BufRead, Write};

fn read_ndjson(path: &str) -> Vec<J> {
    let f = std::fs::File::open(path).unwrap_or_else(|e| panic!("open {}: {}", path, e));
    let mut out = Vec::new();
    for line in std::io::BufReader::new(f).lines() {
        let line = line.expect("read");
        if line.trim().is_empty() {
            continue;
        }
        out.push(serde_json::from_str(&line).unwrap_or_else(|e| panic!("bad json line: {}", e)));
    }
    out
}

fn write_ndjson(path: &str, items: &[J]) {
    let mut f = std::io::BufWriter::new(std::fs::File::create(path).expect("create"));
    for it in items {
        writeln!(f, "{}", it).unwrap();
    }
}

fn load_queries(path: &str) -> Vec<oracle::QInfo> {
    let v: J = serde_json::from_str(&std::fs::read_to_string(path).expect("queries")).expect("json");
    v.as_array()
        .unwrap()
        .iter()
        .map(|q| oracle::compile_query(q["q"].as_str().unwrap()).unwrap_or_else(|e| panic!("query {}: {}", q, e)))
        .collect()
}

fn main() {
    let args: Vec<String> = std::env::args().collect();
    if args.len() < 2 {
        eprintln!("usage: tsgv <sources|queries|gen|run> ...");
        std::process::exit(2);
    }
    match args[1].as_str() {
        "sources" => {
            let srcs = cases::load_sources(&args[2]);
            let tables: Vec<J> = srcs.iter().map(|s| s.table()).collect();
            std::fs::write(&args[3], serde_json::to_string(&tables).unwrap()).unwrap();
            println!("{} sources", srcs.len());
        }
        "queries" => {
            let qs = load_queries(&args[2]);
            let out: Vec<J> = qs
                .iter()
                .map(|q| json!({"q": q.text, "caps": q.caps.iter().map(|(n, k)| json!({"name": n, "q": k})).collect::<Vec<_>>()}))
                .collect();
            std::fs::write(&args[3], serde_json::to_string(&out).unwrap()).unwrap();
            println!("{} queries", qs.len());
        }
        "gen" => {
            let srcs = cases::load_sources(&args[2]);
            let qs = load_queries(&args[3]);
            let n: usize = args[4].parse().unwrap();
            let seed: u64 = args[5].parse().unwrap();
            let profile = args.get(7).map(|s| s.as_str()).unwrap_or("default");
            let mut rng = rng::Rng::new(seed);
            let mut out = Vec::new();
            for i in 0..n {
                let mut cfg = gen::GenCfg::default();
                match profile {
                    "deep" => {
                        cfg.max_stanzas = 8;
                        cfg.max_depth = 4;
                        cfg.max_stmts = 6;
                    }
                    "noisy" => {
                        cfg.noise_pct = 15;
                        cfg.allow_print = true;
                        cfg.allow_mutable_scoped = true;
                    }
                    "small" => {
                        cfg.max_stanzas = 2;
                        cfg.max_depth = 2;
                        cfg.max_stmts = 3;
                    }
                    _ => {}
                }
                let mut g = gen::Gen::new(rng.fork(i as u64), cfg, &qs);
                let (prog, globals) = g.file();
                let ordinary = srcs.iter().filter(|s| !s.name.contains("_many")).count();
                let src = 1 + rng.below(ordinary);
                let both = rng.chance(1, 1);
                let dbg = rng.chance(1, 4);
                for mode in ["strict", "lazy"] {
                    if !both && mode == "lazy" {
                        continue;
                    }
                    out.push(json!({
                        "id": format!("g{}-{}-{}", seed, i, mode),
                        "mode": mode,
                        "dbg": {"on": dbg, "loc": "dbg_loc", "var": "dbg_var", "mat": "dbg_mat"},
                        "prog": prog,
                        "src": src,
                        "globals": globals,
                        "cancel_at": 0,
                    }));
                }
            }
            write_ndjson(&args[6], &out);
            println!("{} cases", out.len());
        }
        "run" => {
            exec::silence_panics();
            let srcs = cases::load_sources(&args[2]);
            let mut items = read_ndjson(&args[3]);
            let layout_seed: Option<u64> = args.get(5).and_then(|s| s.parse().ok());
            let mut n_run = 0;
            for (i, case) in items.iter_mut().enumerate() {
                let lr = layout_seed.map(|s| rng::Rng::new(s.wrapping_add(i as u64 * 7919)));
                cases::prepare(case, &srcs, lr);
                cases::run(case, &srcs);
                if case.get("outcome").is_some() {
                    n_run += 1;
                }
            }
            write_ndjson(&args[4], &items);
            println!("{} cases, {} executed", items.len(), n_run);
        }
        "stdlib" => {
            // tsgv stdlib <dir> <calls.ndjson> <out.ndjson>: one real standard-library call per line
            exec::silence_panics();
            let srcs = cases::load_sources(&args[2]);
            let mut items = read_ndjson(&args[3]);
            let node_lists: Vec<Vec<tree_sitter::Node>> = srcs.iter().map(|s| s.nodes()).collect();
            for it in items.iter_mut() {
                let si = it["src"].as_u64().unwrap_or(1) as usize - 1;
                let r = api::stdlib_call(it, &srcs[si], &node_lists[si]);
                it["real"] = r;
            }
            write_ndjson(&args[4], &items);
            println!("{} calls", items.len());
        }
        "fuzz" => {
            // tsgv fuzz <dir> <in.ndjson> <out.ndjson>: load+run+render arbitrary texts; prints "START <id>" before each case
            exec::silence_panics();
            let srcs = cases::load_sources(&args[2]);
            let items = read_ndjson(&args[3]);
            let mut f = std::io::BufWriter::new(std::fs::File::create(&args[4]).expect("create"));
            for it in items.iter() {
                println!("START {}", it["id"].as_str().unwrap_or(""));
                std::io::stdout().flush().unwrap();
                let si = (it["src"].as_u64().unwrap_or(1) as usize).clamp(1, srcs.len()) - 1;
                let r = api::load_and_run(it["text"].as_str().unwrap_or(""), &srcs[si]);
                writeln!(f, "{}", json!({"id": it["id"], "r": r})).unwrap();
                f.flush().unwrap();
            }
            println!("DONE");
        }
        "session" => {
            // tsgv session <dir> <cases.ndjson> <out.ndjson>
            exec::silence_panics();
            let srcs = cases::load_sources(&args[2]);
            let mut items = read_ndjson(&args[3]);
            for it in items.iter_mut() {
                let r = api::session(it, &srcs);
                it["r"] = r;
            }
            write_ndjson(&args[4], &items);
            println!("{} sessions", items.len());
        }
        "containers" => {
            // tsgv containers <seqs.ndjson> <out.ndjson>: only sequences that disagree are written out
            exec::silence_panics();
            // streamed: the exhaustive tier replays millions of sequences
            use std::io::BufRead;
            let f = std::io::BufReader::new(std::fs::File::open(&args[2]).expect("open sequences"));
            let mut bad = Vec::new();
            let mut ops = 0usize;
            let mut n = 0usize;
            for line in f.lines() {
                let line = line.expect("read line");
                if line.trim().is_empty() {
                    continue;
                }
                let it: J = serde_json::from_str(&line).expect("sequence json");
                n += 1;
                ops += it["hist"].as_array().map(|a| a.len()).unwrap_or(0);
                let r = std::panic::catch_unwind(|| api::containers(&it)).unwrap_or_else(|p| json!({"op": "panic", "detail": api::panic_msg(p)}));
                if !r.is_null() && bad.len() < 1000 {
                    bad.push(json!({"seq": it, "mismatch": r}));
                }
            }
            write_ndjson(&args[3], &bad);
            println!("{} sequences {} operations {} mismatches", n, ops, bad.len());
        }
        "parse-errors" => {
            // tsgv parse-errors <dir> <out.json>
            exec::silence_panics();
            let srcs = cases::load_sources(&args[2]);
            let out: Vec<J> = srcs.iter().map(|s| api::parse_errors(s)).collect();
            std::fs::write(&args[3], serde_json::to_string(&out).unwrap()).unwrap();
            println!("{} sources", out.len());
        }
        "jsonout" => {
            // tsgv jsonout <dir> <graphs.ndjson> <out.ndjson>
            exec::silence_panics();
            let srcs = cases::load_sources(&args[2]);
            let nodes = srcs[2].nodes();
            let items = read_ndjson(&args[3]);
            let out: Vec<J> = items.iter().map(|g| json!({"id": g["id"], "real": api::json_of(g, &srcs[2], &nodes)})).collect();
            write_ndjson(&args[4], &out);
            println!("{} graphs", out.len());
        }
        "libout" => {
            // tsgv libout <dir> <in.ndjson> <out.ndjson>
            exec::silence_panics();
            let srcs = cases::load_sources(&args[2]);
            let mut items = read_ndjson(&args[3]);
            for it in items.iter_mut() {
                let r = api::libout(it, &srcs);
                it["lib"] = r;
            }
            write_ndjson(&args[4], &items);
            println!("{} cases", items.len());
        }
        "parse" => {
            // tsgv parse <in.ndjson> <out.ndjson>: parses each {id, text} WITHOUT the checker and walks the AST
            exec::silence_panics();
            let items = read_ndjson(&args[2]);
            let mut out = Vec::new();
            for it in items.iter() {
                let text = it["text"].as_str().unwrap_or("").to_string();
                let r = std::panic::catch_unwind(|| {
                    let mut f = tree_sitter_graph::ast::File::new(oracle::language());
                    #[allow(deprecated)]
                    match f.parse(&text) {
                        Ok(()) => json!({"status": "ok", "ast": walk::file(&f)}),
                        Err(e) => json!({"status": "err", "msg": format!("{}", e)}),
                    }
                });
                out.push(json!({"id": it["id"], "variant": it["variant"], "r": r.unwrap_or_else(|p| json!({"status": "panic", "msg": api::panic_msg(p)}))}));
            }
            write_ndjson(&args[3], &out);
            println!("{} texts", out.len());
        }
        "retabs" => {
            // tsgv retabs <pool.json> <out.json>: tables of every (regex, subject) of a pool (oracle: regex crate)
            let pool: J = serde_json::from_str(&std::fs::read_to_string(&args[2]).expect("pool")).expect("json");
            let mut tabs = Vec::new();
            let mut infos = Vec::new();
            for re in pool["regexes"].as_array().unwrap() {
                let re = re.as_str().unwrap();
                let compiled = regex::Regex::new(re);
                infos.push(json!({"re": re, "valid": compiled.is_ok(),
                                  "ngroups": compiled.as_ref().map(|r| r.captures_len()).unwrap_or(0),
                                  "nullable": compiled.as_ref().map(|r| r.captures("").is_some()).unwrap_or(false)}));
                for subj in pool["subjects"].as_array().unwrap() {
                    if let Some(t) = oracle::regex_table(re, subj.as_str().unwrap()) {
                        tabs.push(t);
                    }
                }
            }
            let out = json!({"regexes": infos, "subjects": pool["subjects"], "tabs": tabs});
            std::fs::write(&args[3], serde_json::to_string(&out).unwrap()).unwrap();
            println!("{} tables", out["tabs"].as_array().unwrap().len());
        }
        "retab" => {
            // tsgv retab <cases.ndjson> <requests.json> <out.ndjson>: adds the regex tables the specification asked for
            let mut items = read_ndjson(&args[2]);
            let reqs: J = serde_json::from_str(&std::fs::read_to_string(&args[3]).expect("requests")).expect("json");
            let mut out = Vec::new();
            for case in items.iter_mut() {
                let id = case["id"].as_str().unwrap_or("").to_string();
                if let Some(rs) = reqs.get(&id).and_then(|r| r.as_array()) {
                    let mut added = false;
                    for r in rs {
                        let (re, subj) = (r["re"].as_str().unwrap_or(""), r["subj"].as_str().unwrap_or(""));
                        if subj.chars().count() > 200 || !oracle::is_bmp(subj) {
                            continue;
                        }
                        if let Some(t) = oracle::regex_table(re, subj) {
                            case["retab"].as_array_mut().unwrap().push(t);
                            added = true;
                        }
                    }
                    if added {
                        out.push(case.clone());
                    }
                }
            }
            write_ndjson(&args[4], &out);
            println!("{} cases", out.len());
        }
        other => {
            eprintln!("unknown subcommand {}", other);
            std::process::exit(2);
        }
    }
}
