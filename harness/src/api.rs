//! Replays of API-level behaviours (standard library calls, containers, JSON) into the real library.

use crate::exec::{value_from_json_g, value_to_json};
use crate::oracle::Src;
use serde_json::{json, Value as J};
use std::collections::BTreeSet;
use tree_sitter_graph::functions::Functions;
use tree_sitter_graph::graph::{Graph, Value};
use tree_sitter_graph::Identifier;

/// interchange value -> real value; syntax nodes (preorder index) are registered in the graph
pub fn value_in<'tree>(v: &J, graph: &mut Graph<'tree>, src: &'tree Src, nodes: &[tree_sitter::Node<'tree>]) -> Option<Value> {
    Some(match v["t"].as_str()? {
        "syn" => {
            let i = v["n"].as_u64()? as usize;
            let node = *nodes.get(i.checked_sub(1)?)?;
            Value::SyntaxNode(graph.add_syntax_node(node))
        }
        "list" => {
            let mut out = Vec::new();
            for x in v["l"].as_array()? {
                out.push(value_in(x, graph, src, nodes)?);
            }
            Value::List(out)
        }
        "set" => {
            let mut out = BTreeSet::new();
            for x in v["e"].as_array()? {
                out.insert(value_in(x, graph, src, nodes)?);
            }
            Value::Set(out)
        }
        _ => value_from_json_g(v, graph)?,
    })
}

/// one call of the standard library on a graph with `pre_nodes` graph nodes
pub fn stdlib_call<'tree>(call: &J, src: &'tree Src, nodes: &[tree_sitter::Node<'tree>]) -> J {
    let mut graph = Graph::new();
    for _ in 0..call["pre_nodes"].as_u64().unwrap_or(2) {
        graph.add_graph_node();
    }
    let mut args = Vec::new();
    for a in call["args"].as_array().cloned().unwrap_or_default() {
        match value_in(&a, &mut graph, src, nodes) {
            Some(v) => args.push(v),
            None => return json!({"status": "skip", "why": "argument not constructible"}),
        }
    }
    let functions = Functions::stdlib();
    let name = Identifier::from(call["fn"].as_str().unwrap_or(""));
    let r = std::panic::catch_unwind(std::panic::AssertUnwindSafe(|| {
        functions.call(&name, &mut graph, &src.text, &mut args.into_iter())
    }));
    match r {
        Err(p) => {
            let msg = p.downcast_ref::<&str>().map(|s| s.to_string()).or_else(|| p.downcast_ref::<String>().cloned()).unwrap_or_default();
            json!({"status": "panic", "msg": msg})
        }
        Ok(Ok(v)) => json!({"status": "ok", "v": value_to_json(&v, &graph, src), "n": graph.node_count()}),
        Ok(Err(e)) => json!({"status": "err", "kind": crate::exec::error_kind(&e), "display": format!("{}", e), "n": graph.node_count()}),
    }
}
