//! Replays of API-level behaviours (standard library calls, containers, JSON) into the real library.

use crate::exec::{value_from_json_g, value_to_json};
use crate::oracle::Src;
use serde_json::{json, Value as J};
use std::collections::BTreeSet;
use tree_sitter_graph::functions::Functions;
use tree_sitter_graph::graph::{Graph, Value};
use tree_sitter_graph::Identifier;

/// interchange value -> real value; syntax nodes (preorder index) are registered in the graph
pub fn value_in<'tree>(v: &J, graph: &mut Graph<'tree>, src: &'tree Src, nodes: &[tree_sitter::Node<'tree>]) -> Option<Value> {
    Some(match v["t"].as_str()? {
        "syn" => {
            let i = v["n"].as_u64()? as usize;
            let node = *nodes.get(i.checked_sub(1)?)?;
            Value::SyntaxNode(graph.add_syntax_node(node))
        }
        "list" => {
            let mut out = Vec::new();
            for x in v["l"].as_array()? {
                out.push(value_in(x, graph, src, nodes)?);
            }
            Value::List(out)
        }
        "set" => {
            let mut out = BTreeSet::new();
            for x in v["e"].as_array()? {
                out.insert(value_in(x, graph, src, nodes)?);
            }
            Value::Set(out)
        }
        _ => value_from_json_g(v, graph)?,
    })
}

/// one call of the standard library on a graph with `pre_nodes` graph nodes
pub fn stdlib_call<'tree>(call: &J, src: &'tree Src, nodes: &[tree_sitter::Node<'tree>]) -> J {
    let mut graph = Graph::new();
    for _ in 0..call["pre_nodes"].as_u64().unwrap_or(2) {
        graph.add_graph_node();
    }
    let mut args = Vec::new();
    for a in call["args"].as_array().cloned().unwrap_or_default() {
        match value_in(&a, &mut graph, src, nodes) {
            Some(v) => args.push(v),
            None => return json!({"status": "skip", "why": "argument not constructible"}),
        }
    }
    let functions = Functions::stdlib();
    let name = Identifier::from(call["fn"].as_str().unwrap_or(""));
    let r = std::panic::catch_unwind(std::panic::AssertUnwindSafe(|| {
        functions.call(&name, &mut graph, &src.text, &mut args.into_iter())
    }));
    match r {
        Err(p) => {
            let msg = p.downcast_ref::<&str>().map(|s| s.to_string()).or_else(|| p.downcast_ref::<String>().cloned()).unwrap_or_default();
            json!({"status": "panic", "msg": msg})
        }
        Ok(Ok(v)) => json!({"status": "ok", "v": value_to_json(&v, &graph, src), "n": graph.node_count()}),
        Ok(Err(e)) => json!({"status": "err", "kind": crate::exec::error_kind(&e), "display": format!("{}", e), "n": graph.node_count()}),
    }
}

/// load + execute (both modes) + render every error, for arbitrary DSL text (property C05)
pub fn load_and_run(text: &str, src: &Src) -> J {
    use tree_sitter_graph::{ExecutionConfig, NoCancellation, Variables};
    let path = std::path::Path::new("prog.tsg");
    let loaded = std::panic::catch_unwind(|| crate::exec::load(text));
    let file = match loaded {
        Err(p) => return json!({"load": "panic", "msg": panic_msg(p)}),
        Ok(Err(e)) => {
            let d = std::panic::catch_unwind(std::panic::AssertUnwindSafe(|| format!("{}", e)));
            let pp = std::panic::catch_unwind(std::panic::AssertUnwindSafe(|| format!("{}", e.display_pretty(path, text))));
            return json!({"load": "err", "display": d.is_ok(), "pretty": pp.is_ok(),
                          "msg": d.unwrap_or_default(), "render_panic": pp.err().map(panic_msg).unwrap_or_default()});
        }
        Ok(Ok(f)) => f,
    };
    let mut out = serde_json::Map::new();
    out.insert("load".into(), json!("ok"));
    // feature tag (raw tree-sitter on the stanza queries): does tree-sitter report a match in which the capture
    // appended to the stanza pattern is bound to no node, or to several?
    let mut root_missing = false;
    for stanza in &file.stanzas {
        use streaming_iterator::StreamingIterator;
        let mut cursor = tree_sitter::QueryCursor::new();
        let mut it = cursor.matches(&stanza.query, src.tree.root_node(), src.text.as_bytes());
        while let Some(m) = it.next() {
            if m.nodes_for_capture_index(stanza.full_match_stanza_capture_index as u32).count() != 1 {
                root_missing = true;
            }
        }
    }
    out.insert("root_missing".into(), json!(root_missing));
    let functions = Functions::stdlib();
    let globals = Variables::new();
    for (key, lazy) in [("strict", false), ("lazy", true)] {
        let config = ExecutionConfig::new(&functions, &globals).lazy(lazy);
        let r = std::panic::catch_unwind(std::panic::AssertUnwindSafe(|| {
            file.execute(&src.tree, &src.text, &config, &NoCancellation)
        }));
        let v = match r {
            Err(p) => json!({"status": "panic", "msg": panic_msg(p)}),
            Ok(Ok(g)) => {
                let pj = std::panic::catch_unwind(std::panic::AssertUnwindSafe(|| {
                    let _ = format!("{}", g.pretty_print());
                    serde_json::to_string(&g).is_ok()
                }));
                json!({"status": "ok", "nodes": g.node_count(), "output_ok": pj.unwrap_or(false)})
            }
            Ok(Err(e)) => {
                let d = std::panic::catch_unwind(std::panic::AssertUnwindSafe(|| format!("{}", e)));
                let pp = std::panic::catch_unwind(std::panic::AssertUnwindSafe(|| {
                    format!("{}", e.display_pretty(std::path::Path::new("src.py"), &src.text, path, text))
                }));
                json!({"status": "err", "kind": crate::exec::error_kind(&e), "display": d.is_ok(), "pretty": pp.is_ok(),
                       "render_panic": pp.err().map(panic_msg).unwrap_or_default()})
            }
        };
        out.insert(key.into(), v);
    }
    J::Object(out)
}

pub fn panic_msg(p: Box<dyn std::any::Any + Send>) -> String {
    p.downcast_ref::<&str>().map(|s| s.to_string()).or_else(|| p.downcast_ref::<String>().cloned()).unwrap_or_default()
}

/// canonical, numbering-preserving text of one execution result (graph through the public API, attribute
/// maps sorted; pretty form; error text)
/// whether the executions of the current session attach debug attributes (set per session case)
static SESSION_DBG: std::sync::atomic::AtomicBool = std::sync::atomic::AtomicBool::new(false);

fn run_once(file: &tree_sitter_graph::ast::File, src: &Src, lazy: bool, globals: &tree_sitter_graph::Variables) -> String {
    use tree_sitter_graph::{ExecutionConfig, NoCancellation};
    let functions = Functions::stdlib();
    let mut config = ExecutionConfig::new(&functions, globals).lazy(lazy);
    if SESSION_DBG.load(std::sync::atomic::Ordering::SeqCst) {
        config = config.debug_attributes("dbg_loc".into(), "dbg_var".into(), "dbg_mat".into());
    }
    let r = std::panic::catch_unwind(std::panic::AssertUnwindSafe(|| file.execute(&src.tree, &src.text, &config, &NoCancellation)));
    match r {
        Err(p) => format!("PANIC {}", panic_msg(p)),
        Ok(Ok(g)) => {
            let pj = crate::exec::project_graph(&g, src);
            format!("OK {}\n{}", sorted_json(&pj), g.pretty_print())
        }
        Ok(Err(e)) => format!("ERR {}", e),
    }
}

fn sorted_json(v: &J) -> String {
    // serde_json::Map is a BTreeMap here (no preserve_order feature): keys are already sorted
    v.to_string()
}

/// property C12: one loaded file, many executions (repeated, interleaved over trees, concurrent threads)
pub fn session(case: &J, srcs: &[Src]) -> J {
    let text = case["text"].as_str().unwrap_or("");
    let lazy = case["mode"].as_str() == Some("lazy");
    SESSION_DBG.store(case["dbg"].as_bool().unwrap_or(false), std::sync::atomic::Ordering::SeqCst);
    let tree_ids: Vec<usize> = case["srcs"].as_array().map(|a| a.iter().filter_map(|x| x.as_u64()).map(|x| x as usize - 1).collect()).unwrap_or_default();
    // loading: the same text gives the same diagnostic every time
    let mut diags = Vec::new();
    for _ in 0..4 {
        let l = std::panic::catch_unwind(|| crate::exec::load(text));
        diags.push(match l {
            Err(p) => format!("PANIC {}", panic_msg(p)),
            Ok(Err(e)) => format!("ERR {}\n{}", e, e.display_pretty(std::path::Path::new("p.tsg"), text)),
            Ok(Ok(_)) => "OK".to_string(),
        });
    }
    let mut mismatches: Vec<J> = Vec::new();
    if diags.iter().any(|d| d != &diags[0]) {
        mismatches.push(json!({"what": "load diagnostics differ between loads of the same text", "a": diags[0], "b": diags.iter().find(|d| *d != &diags[0])}));
    }
    if diags[0] != "OK" {
        return json!({"load": diags[0], "mismatches": mismatches});
    }
    let globals = match crate::exec::globals_from_json(&case["globals"], &Graph::new()) {
        Ok(g) => g,
        Err(e) => return json!({"skip": e}),
    };
    let snapshot = |g: &tree_sitter_graph::Variables| {
        let mut v: Vec<String> = g.iter().map(|(k, v)| format!("{}={:?}", k, v)).collect();
        v.sort();
        v.join(";")
    };
    let before = snapshot(&globals);
    // isolated runs: a fresh load per run
    let mut isolated: Vec<String> = Vec::new();
    for t in &tree_ids {
        let f = crate::exec::load(text).expect("load");
        isolated.push(run_once(&f, &srcs[*t], lazy, &globals));
    }
    let file = crate::exec::load(text).expect("load");
    // repeated and interleaved on one loaded file
    for round in 0..3 {
        for (k, t) in tree_ids.iter().enumerate() {
            let r = run_once(&file, &srcs[*t], lazy, &globals);
            if r != isolated[k] {
                mismatches.push(json!({"what": format!("round {} on tree {} differs from the isolated run", round, t + 1), "a": isolated[k], "b": r}));
            }
        }
    }
    // the same source text parsed again (a fresh tree: other node addresses, same nodes): same result
    for (k, t) in tree_ids.iter().enumerate() {
        let mut keep = Vec::new();
        for round in 0..6 {
            // (earlier trees are kept alive so that the allocator cannot hand out the very same addresses again)
            let fresh = crate::oracle::parse_source(&srcs[*t].name, &srcs[*t].text);
            let r = run_once(&file, &fresh, lazy, &globals);
            if r != isolated[k] {
                mismatches.push(json!({"what": format!("fresh parse {} of tree {} gives another result than the first parse", round, t + 1), "a": isolated[k], "b": r}));
                break;
            }
            keep.push(fresh);
            if round % 2 == 1 {
                keep.remove(0);
            }
        }
    }
    // concurrent threads sharing the file
    let file_ref = &file;
    let globals_json = case["globals"].clone();
    let results: Vec<Vec<String>> = std::thread::scope(|scope| {
        let handles: Vec<_> = (0..4)
            .map(|i| {
                let tree_ids = tree_ids.clone();
                let globals_json = globals_json.clone();
                scope.spawn(move || {
                    // the variable set is not Sync: every thread builds its own from the same description
                    let globals = crate::exec::globals_from_json(&globals_json, &Graph::new()).expect("globals");
                    let globals_ref = &globals;
                    let mut out = Vec::new();
                    let n = tree_ids.len();
                    for j in 0..n {
                        let t = tree_ids[(i + j) % n];
                        out.push(run_once_threaded(file_ref, &srcs[t], lazy, globals_ref));
                    }
                    out
                })
            })
            .collect();
        handles.into_iter().map(|h| h.join().unwrap_or_else(|_| vec!["THREAD PANIC".to_string()])).collect()
    });
    for (i, rs) in results.iter().enumerate() {
        let n = tree_ids.len();
        for (j, r) in rs.iter().enumerate() {
            let k = (i + j) % n;
            if r != &isolated[k] {
                mismatches.push(json!({"what": format!("thread {} on tree {} differs from the isolated run", i, tree_ids[k] + 1), "a": isolated[k], "b": r}));
            }
        }
    }
    if snapshot(&globals) != before {
        mismatches.push(json!({"what": "caller-supplied globals changed", "a": before, "b": snapshot(&globals)}));
    }
    json!({"load": "OK", "isolated": isolated, "mismatches": mismatches})
}

fn run_once_threaded(file: &tree_sitter_graph::ast::File, src: &Src, lazy: bool, globals: &tree_sitter_graph::Variables) -> String {
    run_once(file, src, lazy, globals)
}

/// property C17: replays one call sequence on real containers; returns the first disagreement (or null)
pub fn containers(seq: &J) -> J {
    use tree_sitter_graph::Variables;
    let mut graph: Graph = Graph::new();
    let mut refs = Vec::new();
    let mut outer = Variables::new();
    let hist = seq["hist"].as_array().cloned().unwrap_or_default();
    let split = hist.iter().position(|h| h["op"] == "nest").unwrap_or(hist.len());
    let dummy_src: Option<&Src> = None;
    let _ = dummy_src;
    let val = |v: &J, graph: &Graph| value_from_json_g(v, graph);
    let show = |v: &Value| -> J { value_plain(v) };
    let mut step = |k: usize, h: &J, graph: &mut Graph, refs: &mut Vec<tree_sitter_graph::graph::GraphNodeRef>, vars: &mut Variables| -> Option<J> {
        let op = h["op"].as_str().unwrap_or("");
        let a = h["args"].as_array().cloned().unwrap_or_default();
        let int = |x: &J| x.as_u64().unwrap_or(0) as usize;
        let got: J = match op {
            "add_node" => {
                let r = graph.add_graph_node();
                refs.push(r);
                json!({"t": "int", "hi": r.index() / 65536, "lo": r.index() % 65536})
            }
            "add_edge" => {
                let (i, j) = (refs[int(&a[0])], refs[int(&a[1])]);
                match graph[i].add_edge(j) {
                    Ok(_) => json!({"t": "str", "s": "new"}),
                    Err(_) => json!({"t": "str", "s": "existing"}),
                }
            }
            "get_edge" => json!({"t": "bool", "b": graph[refs[int(&a[0])]].get_edge(refs[int(&a[1])]).is_some()}),
            "get_edge_mut" => json!({"t": "bool", "b": graph[refs[int(&a[0])]].get_edge_mut(refs[int(&a[1])]).is_some()}),
            "attr_node" => {
                let v = val(&a[2], graph)?;
                match graph[refs[int(&a[0])]].attributes.add(Identifier::from(a[1].as_str().unwrap()), v) {
                    Ok(()) => json!({"t": "str", "s": "ok"}),
                    Err(old) => json!({"t": "conflict", "old": show(&old)}),
                }
            }
            "attr_edge" => {
                let v = val(&a[3], graph)?;
                let j = refs[int(&a[1])];
                match graph[refs[int(&a[0])]].get_edge_mut(j) {
                    None => json!({"t": "str", "s": "<no edge>"}),
                    Some(e) => match e.attributes.add(Identifier::from(a[2].as_str().unwrap()), v) {
                        Ok(()) => json!({"t": "str", "s": "ok"}),
                        Err(old) => json!({"t": "conflict", "old": show(&old)}),
                    },
                }
            }
            "attr_get" => match graph[refs[int(&a[0])]].attributes.get(a[1].as_str().unwrap()) {
                Some(v) => show(v),
                None => json!({"t": "str", "s": "<none>"}),
            },
            "iter_edges" => {
                let l: Vec<J> = graph[refs[int(&a[0])]].iter_edges().map(|(s, _)| json!({"t": "int", "hi": s.index() / 65536, "lo": s.index() % 65536})).collect();
                let n = graph[refs[int(&a[0])]].edge_count();
                if n != l.len() {
                    return Some(json!({"step": k, "op": op, "detail": "edge_count differs from the number of iterated edges"}));
                }
                json!({"t": "list", "l": l})
            }
            "node_count" => {
                let n = graph.node_count();
                if graph.iter_nodes().map(|r| r.index()).collect::<Vec<_>>() != (0..n).collect::<Vec<_>>() {
                    return Some(json!({"step": k, "op": op, "detail": "iter_nodes is not 0..node_count"}));
                }
                json!({"t": "int", "hi": n / 65536, "lo": n % 65536})
            }
            "var_add" => match vars.add(Identifier::from(a[0].as_str().unwrap()), val(&a[1], graph)?) {
                Ok(()) => json!({"t": "str", "s": "ok"}),
                Err(_) => json!({"t": "str", "s": "exists"}),
            },
            "var_get" => match vars.get(&Identifier::from(a[0].as_str().unwrap())) {
                Some(v) => show(v),
                None => json!({"t": "str", "s": "<none>"}),
            },
            "var_remove" => {
                vars.remove(&Identifier::from(a[0].as_str().unwrap()));
                json!({"t": "null"})
            }
            "var_clear" => {
                vars.clear();
                json!({"t": "null"})
            }
            _ => return Some(json!({"step": k, "op": op, "detail": "unknown operation"})),
        };
        if canon(&got) != canon(&h["ret"]) {
            return Some(json!({"step": k, "op": op, "args": a, "expected": h["ret"], "got": got}));
        }
        None
    };
    for (k, h) in hist.iter().enumerate().take(split) {
        if let Some(m) = step(k, h, &mut graph, &mut refs, &mut outer) {
            return m;
        }
    }
    let outer_before: Vec<(String, J)> = sorted_vars(&outer);
    {
        let mut inner = Variables::nested(&outer);
        for (k, h) in hist.iter().enumerate().skip(split + 1) {
            if let Some(m) = step(k, h, &mut graph, &mut refs, &mut inner) {
                return m;
            }
        }
        // nesting is transitive: a set nested in the nested one (and one nested in that) sees exactly what the nested one
        // sees - its own bindings first, then the outer ones - for every name either of them has ever held
        let mut names: Vec<String> = inner.iter().map(|(k, _)| k.as_str().to_string()).collect();
        names.extend(outer.iter().map(|(k, _)| k.as_str().to_string()));
        names.push("never-bound".to_string());
        let level2 = Variables::nested(&inner);
        let mut level3 = Variables::nested(&level2);
        let _ = level3.add(Identifier::from("own-of-level3"), Value::Integer(3));
        for name in names {
            let id = Identifier::from(name.as_str());
            let want = inner.get(&id).map(value_plain);
            for (what, got) in [("twice", level2.get(&id).map(value_plain)), ("three times", level3.get(&id).map(value_plain))] {
                if got != want {
                    return json!({"step": hist.len(), "op": "nested-deep", "detail": format!("a set nested {} sees another value for {} than the nested set", what, name),
                                  "got": got, "expected": want});
                }
            }
        }
    }
    if sorted_vars(&outer) != outer_before {
        return json!({"step": hist.len(), "op": "nested", "detail": "the outer variable set changed through the nested one"});
    }
    // final state against the model
    let want_outer: Vec<(String, J)> = match seq["outer"].as_object() {
        Some(m) => m.iter().map(|(k, v)| (k.clone(), canon(v))).collect(),
        None => Vec::new(),
    };
    let got_outer: Vec<(String, J)> = outer_before.into_iter().map(|(k, v)| (k, canon(&v))).collect();
    if got_outer != want_outer {
        return json!({"step": hist.len(), "op": "final", "detail": "outer variables differ from the model", "got": got_outer, "expected": want_outer});
    }
    J::Null
}

fn sorted_vars(v: &tree_sitter_graph::Variables) -> Vec<(String, J)> {
    let mut out: Vec<(String, J)> = v.iter().map(|(k, v)| (k.as_str().to_string(), value_plain(v))).collect();
    out.sort_by(|a, b| a.0.cmp(&b.0));
    out
}

/// plain (graph-free) rendering of a value
pub fn value_plain(v: &Value) -> J {
    match v {
        Value::Null => json!({"t": "null"}),
        Value::Boolean(b) => json!({"t": "bool", "b": b}),
        Value::Integer(i) => json!({"t": "int", "hi": i / 65536, "lo": i % 65536}),
        Value::String(s) => json!({"t": "str", "s": s}),
        Value::List(l) => json!({"t": "list", "l": l.iter().map(value_plain).collect::<Vec<_>>()}),
        Value::Set(l) => json!({"t": "set", "e": l.iter().map(value_plain).collect::<Vec<_>>()}),
        Value::GraphNode(r) => json!({"t": "gn", "g": r.index()}),
        Value::SyntaxNode(_) => json!({"t": "syn", "n": format!("{}", v)}),
    }
}

/// order-insensitive normal form of an interchange value (sets sorted)
fn canon(v: &J) -> J {
    match v {
        J::Object(m) => {
            let mut o = serde_json::Map::new();
            for (k, x) in m {
                o.insert(k.clone(), canon(x));
            }
            if m.get("t").and_then(|t| t.as_str()) == Some("set") {
                if let Some(J::Array(a)) = o.get_mut("e") {
                    a.sort_by_key(|x| x.to_string());
                }
            }
            J::Object(o)
        }
        J::Array(a) => J::Array(a.iter().map(canon).collect()),
        x => x.clone(),
    }
}

/// property C18: everything the parse_error API reports for one source
pub fn parse_errors(src: &Src) -> J {
    use tree_sitter_graph::parse_error::ParseError;
    let path = std::path::Path::new("src.py");
    let describe = |e: &ParseError, src: &Src| -> J {
        let node = e.node();
        let kind = match e {
            ParseError::Missing(_) => "miss",
            ParseError::Unexpected(_) => "err",
        };
        let d = std::panic::catch_unwind(std::panic::AssertUnwindSafe(|| format!("{}", e.display(path, &src.text))));
        let p = std::panic::catch_unwind(std::panic::AssertUnwindSafe(|| format!("{}", e.display_pretty(path, &src.text))));
        json!({"node": src.pre_of_id(node.id() as u64), "kind": kind,
               "row": node.start_position().row, "col": node.start_position().column,
               "display": d.as_ref().ok(), "display_panic": d.as_ref().err().map(|_| true).unwrap_or(false),
               "pretty": p.as_ref().ok(), "pretty_panic": p.as_ref().err().map(|_| true).unwrap_or(false),
               "text_first_line": src.text[node.byte_range()].lines().next().unwrap_or("")})
    };
    let all: Vec<J> = ParseError::all(&src.tree).iter().map(|e| describe(e, src)).collect();
    let first: Vec<J> = ParseError::first(&src.tree).iter().map(|e| describe(e, src)).collect();
    // owning variants, after a move to another thread (node ids are stable across clones of a tree)
    let t1 = src.tree.clone();
    let t2 = src.tree.clone();
    let owned_all = ParseError::into_all(t1);
    let owned_first = ParseError::into_first(t2);
    let (moved_all, moved_first) = std::thread::scope(|scope| {
        let h = scope.spawn(move || {
            let a: Vec<(usize, bool)> = owned_all.errors().iter().map(|e| (e.node().id(), matches!(e, ParseError::Missing(_)))).collect();
            let ranges: Vec<(usize, usize)> = owned_all.errors().iter().map(|e| (e.node().start_byte(), e.node().end_byte())).collect();
            let f: Vec<(usize, bool)> = owned_first.error().iter().map(|e| (e.node().id(), matches!(e, ParseError::Missing(_)))).collect();
            let tree_back = owned_all.into_tree();
            let opt = owned_first.into_option();
            let again: Vec<usize> = opt.iter().map(|w| w.error().node().id()).collect();
            (a, ranges, f, tree_back.root_node().end_byte(), again)
        });
        let (a, ranges, f, end, again) = h.join().expect("thread");
        let _ = (end, again);
        (
            a.iter().zip(ranges.iter()).map(|((_, miss), (s, e))| json!({"kind": if *miss { "miss" } else { "err" }, "sb": s, "eb": e})).collect::<Vec<J>>(),
            f.iter().map(|(_, miss)| json!({"kind": if *miss { "miss" } else { "err" }})).collect::<Vec<J>>(),
        )
    });
    json!({"name": src.name, "all": all, "first": first, "moved_all": moved_all, "moved_first": moved_first})
}

/// property C14: builds the described graph through the public API and serialises it
pub fn json_of(desc: &J, src: &Src, nodes: &[tree_sitter::Node]) -> J {
    let r = std::panic::catch_unwind(std::panic::AssertUnwindSafe(|| {
        let mut graph = Graph::new();
        let n = desc["n"].as_u64().unwrap_or(0) as usize;
        let refs: Vec<_> = (0..n).map(|_| graph.add_graph_node()).collect();
        for (i, nd) in desc["nodes"].as_array().cloned().unwrap_or_default().iter().enumerate() {
            if let Some(m) = nd["attrs"].as_object() {
                for (k, v) in m {
                    // SAFETY of lifetimes: syntax nodes come from `src`, which outlives the graph
                    let val = value_in_any(v, &mut graph, nodes).expect("value");
                    let _ = graph[refs[i]].attributes.add(Identifier::from(k.as_str()), val);
                }
                // setting an attribute again to the value it has is accepted and changes nothing
                for (k, v) in m {
                    let val = value_in_any(v, &mut graph, nodes).expect("value");
                    let _ = graph[refs[i]].attributes.add(Identifier::from(k.as_str()), val);
                }
            }
            // the edges are created in a scrambled order (middle first, then alternating outwards), and every edge is created a
            // second time afterwards: neither may change the resulting edge set
            let outs = nd["out"].as_array().cloned().unwrap_or_default();
            let mut order: Vec<usize> = Vec::new();
            let mid = outs.len() / 2;
            for d in 0..=outs.len() {
                if mid + d < outs.len() {
                    order.push(mid + d);
                }
                if d > 0 && mid >= d {
                    order.push(mid - d);
                }
            }
            for &k in order.iter().chain(order.iter().rev()) {
                let sink = refs[outs[k]["sink"].as_u64().unwrap() as usize];
                let _ = graph[refs[i]].add_edge(sink);
            }
            for e in outs {
                let sink = refs[e["sink"].as_u64().unwrap() as usize];
                if let Some(m) = e["attrs"].as_object() {
                    for (k, v) in m {
                        let val = value_in_any(v, &mut graph, nodes).expect("value");
                        let edge = graph[refs[i]].get_edge_mut(sink).expect("edge");
                        let _ = edge.attributes.add(Identifier::from(k.as_str()), val);
                    }
                }
            }
        }
        let mut j = serde_json::to_value(&graph).expect("serialise");
        let text = serde_json::to_string(&graph).expect("serialise");
        let reparsed: J = serde_json::from_str(&text).expect("valid json");
        // (a parser merges repeated keys: the text must also be as long as the re-serialised value - no key written twice)
        let valid = reparsed == j && serde_json::to_string(&reparsed).map(|t| t.len()).unwrap_or(0) == text.len();
        fix_syntax_ids(&mut j, src);
        let pretty = format!("{}", graph.pretty_print());
        let api = crate::exec::project_graph(&graph, src);
        json!({"json": j, "valid": valid, "pretty": pretty, "api": api})
    }));
    r.unwrap_or_else(|p| json!({"panic": panic_msg(p)}))
}

fn value_in_any<'tree>(v: &J, graph: &mut Graph<'tree>, nodes: &[tree_sitter::Node<'tree>]) -> Option<Value> {
    Some(match v["t"].as_str()? {
        "syn" => Value::SyntaxNode(graph.add_syntax_node(*nodes.get((v["n"].as_u64()? as usize).checked_sub(1)?)?)),
        "list" => Value::List(v["l"].as_array()?.iter().map(|x| value_in_any(x, graph, nodes)).collect::<Option<Vec<_>>>()?),
        "set" => Value::Set(v["e"].as_array()?.iter().map(|x| value_in_any(x, graph, nodes)).collect::<Option<BTreeSet<_>>>()?),
        _ => value_from_json_g(v, graph)?,
    })
}

/// raw (truncated) syntax-node ids in the crate's JSON -> preorder indices
fn fix_syntax_ids(j: &mut J, src: &Src) {
    match j {
        J::Object(m) => {
            if m.get("type").and_then(|t| t.as_str()) == Some("syntaxNode") {
                let id = m.get("id").and_then(|x| x.as_u64()).unwrap_or(0);
                m.insert("id".into(), json!(src.pre_of_id32(id)));
            }
            for (_, v) in m.iter_mut() {
                fix_syntax_ids(v, src);
            }
        }
        J::Array(a) => {
            for v in a.iter_mut() {
                fix_syntax_ids(v, src);
            }
        }
        _ => {}
    }
}

/// property C19: what the library computes for (DSL text, source, mode, string globals)
pub fn libout(case: &J, srcs: &[Src]) -> J {
    use tree_sitter_graph::{ExecutionConfig, NoCancellation, Variables};
    let src = &srcs[case["src"].as_u64().unwrap_or(1) as usize - 1];
    let text = case["text"].as_str().unwrap_or("");
    let file = match crate::exec::load(text) {
        Ok(f) => f,
        Err(_) => return json!({"status": "rejected"}),
    };
    let mut globals = Variables::new();
    if let Some(m) = case["globals"].as_object() {
        for (k, v) in m {
            let _ = globals.add(Identifier::from(k.as_str()), Value::String(v.as_str().unwrap_or("").to_string()));
        }
    }
    let functions = Functions::stdlib();
    let config = ExecutionConfig::new(&functions, &globals).lazy(case["lazy"].as_bool().unwrap_or(false));
    // raw tree-sitter, not the library's own error discovery: the property speaks of the source, not of what ParseError finds
    let has_syntax_errors = src.tree.root_node().has_error();
    match file.execute(&src.tree, &src.text, &config, &NoCancellation) {
        Ok(g) => json!({"status": "ok", "pretty": format!("{}", g.pretty_print()), "json": serde_json::to_value(&g).unwrap(),
                        "syntax_errors": has_syntax_errors}),
        Err(_) => json!({"status": "execfail", "syntax_errors": has_syntax_errors}),
    }
}
