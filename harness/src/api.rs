//! Replays of API-level behaviours (standard library calls, containers, JSON) into the real library.

use crate::exec::{value_from_json_g, value_to_json};
use crate::oracle::Src;
use serde_json::{json, Value as J};
use std::collections::BTreeSet;
use tree_sitter_graph::functions::Functions;
use tree_sitter_graph::graph::{Graph, Value};
use tree_sitter_graph::Identifier;

/// interchange value -> real value; syntax nodes (preorder index) are registered in the graph
pub fn value_in<'tree>(v: &J, graph: &mut Graph<'tree>, src: &'tree Src, nodes: &[tree_sitter::Node<'tree>]) -> Option<Value> {
    Some(match v["t"].as_str()? {
        "syn" => {
            let i = v["n"].as_u64()? as usize;
            let node = *nodes.get(i.checked_sub(1)?)?;
            Value::SyntaxNode(graph.add_syntax_node(node))
        }
        "list" => {
            let mut out = Vec::new();
            for x in v["l"].as_array()? {
                out.push(value_in(x, graph, src, nodes)?);
            }
            Value::List(out)
        }
        "set" => {
            let mut out = BTreeSet::new();
            for x in v["e"].as_array()? {
                out.insert(value_in(x, graph, src, nodes)?);
            }
            Value::Set(out)
        }
        _ => value_from_json_g(v, graph)?,
    })
}

/// one call of the standard library on a graph with `pre_nodes` graph nodes
pub fn stdlib_call<'tree>(call: &J, src: &'tree Src, nodes: &[tree_sitter::Node<'tree>]) -> J {
    let mut graph = Graph::new();
    for _ in 0..call["pre_nodes"].as_u64().unwrap_or(2) {
        graph.add_graph_node();
    }
    let mut args = Vec::new();
    for a in call["args"].as_array().cloned().unwrap_or_default() {
        match value_in(&a, &mut graph, src, nodes) {
            Some(v) => args.push(v),
            None => return json!({"status": "skip", "why": "argument not constructible"}),
        }
    }
    let functions = Functions::stdlib();
    let name = Identifier::from(call["fn"].as_str().unwrap_or(""));
    let r = std::panic::catch_unwind(std::panic::AssertUnwindSafe(|| {
        functions.call(&name, &mut graph, &src.text, &mut args.into_iter())
    }));
    match r {
        Err(p) => {
            let msg = p.downcast_ref::<&str>().map(|s| s.to_string()).or_else(|| p.downcast_ref::<String>().cloned()).unwrap_or_default();
            json!({"status": "panic", "msg": msg})
        }
        Ok(Ok(v)) => json!({"status": "ok", "v": value_to_json(&v, &graph, src), "n": graph.node_count()}),
        Ok(Err(e)) => json!({"status": "err", "kind": crate::exec::error_kind(&e), "display": format!("{}", e), "n": graph.node_count()}),
    }
}

/// load + execute (both modes) + render every error, for arbitrary DSL text (property C05)
pub fn load_and_run(text: &str, src: &Src) -> J {
    use tree_sitter_graph::{ExecutionConfig, NoCancellation, Variables};
    let path = std::path::Path::new("prog.tsg");
    let loaded = std::panic::catch_unwind(|| crate::exec::load(text));
    let file = match loaded {
        Err(p) => return json!({"load": "panic", "msg": panic_msg(p)}),
        Ok(Err(e)) => {
            let d = std::panic::catch_unwind(std::panic::AssertUnwindSafe(|| format!("{}", e)));
            let pp = std::panic::catch_unwind(std::panic::AssertUnwindSafe(|| format!("{}", e.display_pretty(path, text))));
            return json!({"load": "err", "display": d.is_ok(), "pretty": pp.is_ok(),
                          "msg": d.unwrap_or_default(), "render_panic": pp.err().map(panic_msg).unwrap_or_default()});
        }
        Ok(Ok(f)) => f,
    };
    let mut out = serde_json::Map::new();
    out.insert("load".into(), json!("ok"));
    // feature tag (raw tree-sitter on the stanza queries): does tree-sitter report a match in which the capture
    // appended to the stanza pattern is bound to no node, or to several?
    let mut root_missing = false;
    for stanza in &file.stanzas {
        use streaming_iterator::StreamingIterator;
        let mut cursor = tree_sitter::QueryCursor::new();
        let mut it = cursor.matches(&stanza.query, src.tree.root_node(), src.text.as_bytes());
        while let Some(m) = it.next() {
            if m.nodes_for_capture_index(stanza.full_match_stanza_capture_index as u32).count() != 1 {
                root_missing = true;
            }
        }
    }
    out.insert("root_missing".into(), json!(root_missing));
    let functions = Functions::stdlib();
    let globals = Variables::new();
    for (key, lazy) in [("strict", false), ("lazy", true)] {
        let config = ExecutionConfig::new(&functions, &globals).lazy(lazy);
        let r = std::panic::catch_unwind(std::panic::AssertUnwindSafe(|| {
            file.execute(&src.tree, &src.text, &config, &NoCancellation)
        }));
        let v = match r {
            Err(p) => json!({"status": "panic", "msg": panic_msg(p)}),
            Ok(Ok(g)) => {
                let pj = std::panic::catch_unwind(std::panic::AssertUnwindSafe(|| {
                    let _ = format!("{}", g.pretty_print());
                    serde_json::to_string(&g).is_ok()
                }));
                json!({"status": "ok", "nodes": g.node_count(), "output_ok": pj.unwrap_or(false)})
            }
            Ok(Err(e)) => {
                let d = std::panic::catch_unwind(std::panic::AssertUnwindSafe(|| format!("{}", e)));
                let pp = std::panic::catch_unwind(std::panic::AssertUnwindSafe(|| {
                    format!("{}", e.display_pretty(std::path::Path::new("src.py"), &src.text, path, text))
                }));
                json!({"status": "err", "kind": crate::exec::error_kind(&e), "display": d.is_ok(), "pretty": pp.is_ok(),
                       "render_panic": pp.err().map(panic_msg).unwrap_or_default()})
            }
        };
        out.insert(key.into(), v);
    }
    J::Object(out)
}

pub fn panic_msg(p: Box<dyn std::any::Any + Send>) -> String {
    p.downcast_ref::<&str>().map(|s| s.to_string()).or_else(|| p.downcast_ref::<String>().cloned()).unwrap_or_default()
}
