//! Case preparation (rendering, oracle tables) and execution of prepared cases.

use crate::exec;
use crate::oracle::{self, QInfo, Src};
use crate::render;
use crate::rng::Rng;
use serde_json::{json, Value as J};
use std::collections::BTreeSet;

pub fn load_sources(dir: &str) -> Vec<Src> {
    let mut names: Vec<String> = std::fs::read_dir(dir)
        .expect("sources dir")
        .filter_map(|e| e.ok())
        .map(|e| e.file_name().to_string_lossy().to_string())
        .filter(|n| n.ends_with(".py"))
        .collect();
    names.sort();
    names
        .iter()
        .map(|n| {
            let text = std::fs::read_to_string(format!("{}/{}", dir, n)).expect("read source");
            oracle::parse_source(n, &text)
        })
        .collect()
}

fn collect_strings(v: &J, out: &mut BTreeSet<String>, res: &mut BTreeSet<String>) {
    match v {
        J::Object(m) => {
            if m.get("k").and_then(|k| k.as_str()) == Some("str") {
                if let Some(s) = m.get("v").and_then(|s| s.as_str()) {
                    out.insert(s.to_string());
                }
            }
            if m.get("t").and_then(|k| k.as_str()) == Some("str") {
                if let Some(s) = m.get("s").and_then(|s| s.as_str()) {
                    out.insert(s.to_string());
                }
            }
            if let Some(re) = m.get("re").and_then(|s| s.as_str()) {
                res.insert(re.to_string());
            }
            for (_, x) in m {
                collect_strings(x, out, res);
            }
        }
        J::Array(a) => {
            for x in a {
                collect_strings(x, out, res);
            }
        }
        _ => {}
    }
}

fn collect_svar_names(v: &J, out: &mut BTreeSet<String>) {
    match v {
        J::Object(m) => {
            if m.get("k").and_then(|k| k.as_str()) == Some("svar") {
                if let Some(n) = m.get("name").and_then(|n| n.as_str()) {
                    out.insert(n.to_string());
                }
            }
            for (_, x) in m {
                collect_svar_names(x, out);
            }
        }
        J::Array(a) => {
            for x in a {
                collect_svar_names(x, out);
            }
        }
        _ => {}
    }
}

pub const MAX_SUBJECT_CHARS: usize = 40;
pub const MAX_TABLES: usize = 250;

/// regex tables for every (arm regex, candidate subject) of the case
fn regex_tables(case: &J, src: &Src) -> Vec<J> {
    let mut subjects = BTreeSet::new();
    let mut regexes = BTreeSet::new();
    collect_strings(&case["prog"], &mut subjects, &mut regexes);
    collect_strings(&case["globals"], &mut subjects, &mut BTreeSet::new());
    if regexes.is_empty() {
        return Vec::new();
    }
    let prog_text = case["prog"].to_string();
    if prog_text.contains("\"source-text\"") {
        for n in src.nodes() {
            let t = &src.text[n.byte_range()];
            if t.chars().count() <= MAX_SUBJECT_CHARS {
                subjects.insert(t.to_string());
            }
        }
    }
    if prog_text.contains("\"node-type\"") {
        for n in src.nodes() {
            subjects.insert(n.kind().to_string());
        }
    }
    let mut done: BTreeSet<(String, String)> = BTreeSet::new();
    let mut out = Vec::new();
    let mut frontier: Vec<String> = subjects
        .into_iter()
        .filter(|s| s.chars().count() <= MAX_SUBJECT_CHARS && oracle::is_bmp(s))
        .collect();
    for _round in 0..3 {
        let mut next = BTreeSet::new();
        for s in &frontier {
            for re in &regexes {
                if out.len() >= MAX_TABLES {
                    return out;
                }
                if !done.insert((re.clone(), s.clone())) {
                    continue;
                }
                if let Some(t) = oracle::regex_table(re, s) {
                    if let Some(rows) = t["tab"].as_array() {
                        for r in rows {
                            if let Some(gs) = r["g"].as_array() {
                                for g in gs {
                                    if let Some(g) = g.as_str() {
                                        if !g.is_empty() {
                                            next.insert(g.to_string());
                                        }
                                    }
                                }
                            }
                        }
                    }
                    out.push(t);
                }
            }
        }
        frontier = next.into_iter().collect();
        if frontier.is_empty() {
            break;
        }
    }
    out
}

fn find_src<'a>(sources: &'a [Src], case: &J) -> Option<(usize, &'a Src)> {
    if let Some(i) = case["src"].as_u64() {
        let i = i as usize;
        if i >= 1 && i <= sources.len() {
            return Some((i, &sources[i - 1]));
        }
    }
    if let Some(name) = case["src"].as_str() {
        for (i, s) in sources.iter().enumerate() {
            if s.name == name {
                return Some((i + 1, s));
            }
        }
    }
    None
}

/// Adds text/locs (unless the case already carries `text`), per-stanza matches, the merged order and
/// regex tables.  Sets `skip` (with a reason) when the oracle cannot serve the case.
pub fn prepare(case: &mut J, sources: &[Src], layout_rng: Option<Rng>) {
    if case.get("next").is_some() {
        let mut next = case["next"].take();
        if next.get("src").is_none() {
            next["src"] = case["src"].clone();
        }
        prepare(&mut next, sources, layout_rng.clone());
        if let Some(sk) = next.get("skip") {
            case["skip"] = sk.clone();
        }
        case["next"] = next;
    }
    prepare_one(case, sources, layout_rng)
}

fn prepare_one(case: &mut J, sources: &[Src], layout_rng: Option<Rng>) {
    let (si, src) = match find_src(sources, case) {
        Some(x) => x,
        None => {
            case["skip"] = json!("unknown source");
            return;
        }
    };
    case["src"] = json!(si);
    if case.get("text").is_none() {
        let mut prog = case["prog"].take();
        let text = render::render(&mut prog, layout_rng);
        case["prog"] = prog;
        case["text"] = json!(text);
    }
    if !oracle::is_bmp(case["text"].as_str().unwrap_or("")) || !oracle::is_bmp(&src.text) {
        case["skip"] = json!("non-BMP text");
        return;
    }
    // matches
    let mut qinfos: Vec<QInfo> = Vec::new();
    let nst = case["prog"]["stanzas"].as_array().map(|a| a.len()).unwrap_or(0);
    for i in 0..nst {
        let qt = case["prog"]["stanzas"][i]["qtext"].as_str().unwrap_or("").to_string();
        match oracle::compile_query(&qt) {
            Ok(q) => qinfos.push(q),
            Err(e) => {
                case["skip"] = json!(format!("query does not compile: {}", e));
                return;
            }
        }
    }
    let mut per_stanza: Vec<Vec<oracle::OMatch>> = Vec::new();
    let mut mj = Vec::new();
    for q in &qinfos {
        let ms = oracle::stanza_matches(src, q);
        // a quantified top-level pattern binds the root capture to several nodes: the library (and the machine) take the first;
        // no node at all is the territory of property C05 (the run must fail, not panic) and is not judged here
        if ms.iter().any(|m| m.root.is_empty()) {
            case["skip"] = json!("tree-sitter binds the root capture of a match to no node");
            return;
        }
        let caps: Vec<J> = q.caps.iter().map(|(n, qn)| json!({"name": n, "q": qn})).collect();
        mj.push(json!({"caps": caps, "ms": ms.iter().map(|m| m.to_json()).collect::<Vec<_>>()}));
        per_stanza.push(ms);
    }
    case["matches"] = json!(mj);
    // merged order
    let refs: Vec<&QInfo> = qinfos.iter().collect();
    let mut lorder = Vec::new();
    if !refs.is_empty() {
        match oracle::merged_matches(src, &refs) {
            Err(e) => {
                case["skip"] = json!(format!("merged query does not compile: {}", e));
                return;
            }
            Ok(ms) => {
                let mut used: Vec<Vec<bool>> = per_stanza.iter().map(|v| vec![false; v.len()]).collect();
                for (st, m) in &ms {
                    let mut found = None;
                    for (j, pm) in per_stanza[*st].iter().enumerate() {
                        if !used[*st][j] && pm == m {
                            found = Some(j);
                            break;
                        }
                    }
                    match found {
                        Some(j) => {
                            used[*st][j] = true;
                            lorder.push(json!([st + 1, j + 1]));
                        }
                        None => {
                            case["skip"] = json!("tree-sitter: merged query and per-stanza queries disagree");
                            return;
                        }
                    }
                }
                if used.iter().any(|v| v.iter().any(|u| !*u)) {
                    case["skip"] = json!("tree-sitter: merged query and per-stanza queries disagree");
                    return;
                }
            }
        }
    }
    case["lorder"] = json!(lorder);
    // names of scoped variables in the order the library forces them at the end of lazy evaluation (sorted)
    let mut names = BTreeSet::new();
    collect_svar_names(&case["prog"], &mut names);
    case["svnames"] = json!(names.into_iter().collect::<Vec<_>>());
    let load_only = case["load_only"].as_bool().unwrap_or(false);
    case["retab"] = if load_only { json!([]) } else { json!(regex_tables(case, src)) };
    // which arm regexes match the empty string (regex crate)
    let mut res = BTreeSet::new();
    collect_strings(&case["prog"], &mut BTreeSet::new(), &mut res);
    let mut renull = serde_json::Map::new();
    for re in res {
        renull.insert(re.clone(), json!(regex::Regex::new(&re).map(|r| r.captures("").is_some()).unwrap_or(false)));
    }
    case["renull"] = J::Object(renull);
    if case.get("cancel_at").is_none() {
        case["cancel_at"] = json!(0);
    }
    if case.get("globals").is_none() {
        case["globals"] = json!({});
    }
}

/// Executes one prepared case (and the chain of `next` runs, all into the same graph) against the
/// real library; fills `events` and `outcome` of every run.
pub fn run(case: &mut J, sources: &[Src]) {
    if case.get("skip").is_some() {
        return;
    }
    let (_, src) = find_src(sources, case).expect("source");
    let mut graph = tree_sitter_graph::graph::Graph::new();
    let mut cur: &mut J = case;
    loop {
        run_one(cur, src, &mut graph);
        if cur.get("next").is_none() {
            break;
        }
        cur = cur.get_mut("next").unwrap();
    }
}

fn run_one<'tree>(case: &mut J, src: &'tree Src, graph: &mut tree_sitter_graph::graph::Graph<'tree>) {
    let text = case["text"].as_str().unwrap().to_string();
    let loaded = std::panic::catch_unwind(|| exec::load(&text));
    let file = match loaded {
        Err(_) => {
            case["events"] = json!([]);
            case["outcome"] = json!({"status": "load_panic"});
            return;
        }
        Ok(Err(e)) => {
            case["events"] = json!([]);
            case["outcome"] = json!({"status": "load_err", "err": {"display": format!("{}", e), "debug": format!("{:?}", e)}});
            return;
        }
        Ok(Ok(f)) => f,
    };
    if case["load_only"].as_bool().unwrap_or(false) {
        case["events"] = json!([]);
        case["outcome"] = json!({"status": "loaded"});
        return;
    }
    // globals: optionally split over a parent set and a nested set ("globals_outer" = names kept in the parent)
    let outer_names: Vec<String> = case["globals_outer"]
        .as_array()
        .map(|a| a.iter().filter_map(|x| x.as_str().map(|s| s.to_string())).collect())
        .unwrap_or_default();
    let mut outer_json = serde_json::Map::new();
    let mut inner_json = serde_json::Map::new();
    if let Some(m) = case["globals"].as_object() {
        for (k, v) in m {
            if outer_names.contains(k) {
                outer_json.insert(k.clone(), v.clone());
            } else {
                inner_json.insert(k.clone(), v.clone());
            }
        }
    }
    // "globals_shadowed": name -> value bound in the PARENT set although the nested set binds the name too (the nested binding wins)
    if let Some(m) = case["globals_shadowed"].as_object() {
        for (k, v) in m {
            outer_json.insert(k.clone(), v.clone());
        }
    }
    let outer = match exec::globals_from_json(&J::Object(outer_json), graph) {
        Ok(g) => g,
        Err(e) => {
            case["skip"] = json!(e);
            return;
        }
    };
    let mut globals = tree_sitter_graph::Variables::nested(&outer);
    if let Err(e) = exec::globals_add_json(&mut globals, &J::Object(inner_json), graph) {
        case["skip"] = json!(e);
        return;
    }
    let before = exec::globals_snapshot(&globals, &outer, graph, src);
    let dbg_on = case["dbg"]["on"].as_bool().unwrap_or(false);
    let (l, v, m) = (
        case["dbg"]["loc"].as_str().unwrap_or("dbg_loc").to_string(),
        case["dbg"]["var"].as_str().unwrap_or("dbg_var").to_string(),
        case["dbg"]["mat"].as_str().unwrap_or("dbg_mat").to_string(),
    );
    let cfg = exec::RunCfg {
        lazy: case["mode"].as_str() == Some("lazy"),
        dbg: if dbg_on { Some((&l, &v, &m)) } else { None },
        cancel_at: case["cancel_at"].as_u64().unwrap_or(0) as usize,
    };
    let (events, mut outcome) = exec::execute_into(&file, graph, src, &globals, &cfg, &text);
    let after = exec::globals_snapshot(&globals, &outer, graph, src);
    outcome["globals_unchanged"] = json!(before == after);
    if case["visit"].as_bool().unwrap_or(false) {
        outcome["visits"] = exec::visit_all(&file, src);
    }
    case["events"] = json!(events);
    case["outcome"] = outcome;
}
