"""C20 Execution errors identify the failing statement, stanza and matched node."""
import json
import os

import astgen as A
import common as C
import execpipe as X

PROP = "C20"
RULE = ("valid programs with nested blocks (if arm, for body, scan arm, depth 0-3, several stanzas) into which exactly one runtime fault "
        "(type error, unknown function, conflicting attribute, duplicate scoped variable, undefined edge) is injected at every "
        "statement position, x trees with many matches x {strict, lazy}; incl. stanzas whose matches have different node kinds (alternation, wildcard, supertype) with the fault reached only for one kind; the real error's context chain (read through the guarded "
        "re-export of Context/StatementContext) must name the stanza, the matched node and a statement the TLA+ machine admits "
        "(strict: the failing statement; lazy: it or an enclosing one; conflicts: both statements); the pretty rendering must show "
        "the cited lines; non-trivial = the injected fault was reached")

FAULTS = ["type", "unknown-fn", "conflict", "dup-scoped", "undef-edge", "type-attr-value", "edge-conflict-fanout", "edge-conflict", "bad-scope", "bad-scope-read", "bad-let-read", "bad-var-read-twice"]
# faults that need several matches / stanzas (built as whole files)
FILE_FAULTS = ["self-conflict-shared-node", "self-dup-scoped-shared", "conflict-across-stanzas", "bad-scoped-value-read-elsewhere"]


def fault_stmts(kind, cap):
    if kind == "type":
        return [A.edge(A.null(), A.var("n"))]
    if kind == "unknown-fn":
        return [A.let(A.var("zz"), A.call("no-such-function", A.integer(1)))]
    if kind == "conflict":
        return [A.attrn(A.var("n"), A.attr("cf", A.integer(1))), A.attrn(A.var("n"), A.attr("cf", A.integer(2)))]
    if kind == "dup-scoped":
        return [A.let(A.svar(A.cap(cap), "dup"), A.integer(1)), A.let(A.svar(A.cap(cap), "dup"), A.integer(2))]
    if kind == "edge-conflict-fanout":
        return [A.node(A.var("fb")), A.node(A.var("fc")), A.edge(A.var("n"), A.var("fb")), A.edge(A.var("n"), A.var("fc")),
                A.attre(A.var("n"), A.var("fb"), A.attr("ek", A.integer(1))), A.attre(A.var("n"), A.var("fc"), A.attr("ek", A.integer(5))),
                A.attre(A.var("n"), A.var("fb"), A.attr("ek", A.integer(2)))]
    if kind == "edge-conflict":
        return [A.edge(A.var("n"), A.var("n")), A.attre(A.var("n"), A.var("n"), A.attr("ek", A.integer(1))), A.attre(A.var("n"), A.var("n"), A.attr("ek", A.integer(2)))]
    if kind == "undef-edge":
        return [A.attre(A.var("n"), A.var("n"), A.attr("w", A.integer(1)))]
    if kind == "bad-let-read":       # the failing value belongs to a `let`; another statement reads the variable
        return [A.let(A.var("bl"), A.call("plus", A.string("x"), A.integer(1))), A.node(A.var("rd")), A.attrn(A.var("rd"), A.attr("v", A.var("bl")))]
    if kind == "bad-var-read-twice":
        return [A.let(A.var("bl"), A.lst(A.call("no-such-function"))), A.node(A.var("rd")), A.edge(A.var("rd"), A.var("n")),
                A.attre(A.var("rd"), A.var("n"), A.attr("v", A.var("bl"))), A.attrn(A.var("rd"), A.attr("w", A.var("bl")))]
    if kind == "bad-scope":          # a scoped variable on something that is not a syntax node, never read
        return [A.let(A.svar(A.var("n"), "onnode"), A.integer(1))]
    if kind == "bad-scope-read":     # the same, read by a later statement
        return [A.let(A.svar(A.var("n"), "onnode"), A.integer(1)), A.node(A.var("rd")), A.attrn(A.var("rd"), A.attr("v", A.svar(A.var("n"), "onnode")))]
    return [A.attrn(A.var("n"), A.attr("tv", A.call("plus", A.string("x"), A.integer(1))))]


def skeleton(r, cap, depth_path, fault):
    """a stanza body with the fault placed inside the nesting given by depth_path (list of 'if'|'for'|'scan')"""
    inner = list(fault)
    for kind in reversed(depth_path):
        pad_before = [A.attrn(A.var("n"), A.attr("p%d" % r.randrange(1000), A.integer(r.randrange(5))))] if r.random() < 0.5 else []
        body = pad_before + inner
        if kind == "if":
            inner = [A.iff(([A.cond("bool", A.false())], [A.node(A.var("unused"))]), ([A.cond("bool", A.true())], body))]
        elif kind == "for":
            inner = [A.forin("it%d" % len(depth_path), A.lst(A.integer(1), A.integer(2)), body)]
        else:
            inner = [A.scan(A.string("ab"), ("a", body), ("b", [A.node(A.var("other"))]))]
    pre = [A.node(A.var("n")), A.let(A.var("ok1"), A.call("source-text", A.cap(cap)))]
    post = [A.attrn(A.var("n"), A.attr("done", A.true()))]
    k = r.randint(0, len(pre) - 1)
    return pre + inner + post


def make_cases(tier):
    r = A.rng(20)
    nsrc = A.n_sources()
    queries = [("(identifier) @id ", "id"), ("(module) @m ", "m"), ("(assignment left: (_) @l right: (_)? @_r) @_a ", "l"),
               ("(expression_statement (_) @e) @_s ", "e")]
    paths = [[], ["if"], ["for"], ["scan"], ["if", "for"], ["scan", "if"], ["for", "scan"], ["if", "for", "scan"], ["scan", "scan"], ["for", "for", "if"]]
    cases = []
    k = 0
    combos = [(f, p, q) for f in FAULTS for p in paths for q in queries]
    if tier == "quick":
        r.shuffle(combos)
        combos = combos[:90]
    for fault, path, (qtext, cap) in combos:
        nrep = 1 if tier == "quick" else 3
        for _ in range(nrep):
            stanzas = []
            if r.random() < 0.5:
                stanzas.append(A.stanza("(module) @_m ", [A.node(A.var("root")), A.attrn(A.var("root"), A.attr("k", A.integer(1)))]))
            stanzas.append(A.stanza(qtext, skeleton(r, cap, path, fault_stmts(fault, cap))))
            if r.random() < 0.5:
                stanzas.append(A.stanza("(pass_statement) @_p ", [A.node(A.var("tail"))]))
            prog = A.file(stanzas)
            src = r.choice([2, 3, 5, 6, 7, 8, 10, 11, 14, 17, 18])
            for c in A.both_modes("c20-%d" % k, prog, src):
                c["fault"] = fault
                c["path"] = path
                cases.append(c)
            k += 1
    # stanzas whose matches are nodes of different kinds; the fault is reached only in matches of one kind (usually not the first match)
    # (query, capture, kinds to fail on, sources in which that kind occurs and is not the kind of the stanza's first match)
    multi = [("[(expression_statement) (return_statement) (if_statement) (function_definition)] @s ", "s", ["return_statement", "expression_statement"], [2]),
             ("[(expression_statement) (return_statement) (if_statement) (function_definition)] @s ", "s", ["expression_statement"], [5]),
             ("(expression) @s ", "s", ["integer", "identifier", "call", "binary_operator"], [2]),
             ("(expression) @s ", "s", ["integer"], [5, 10, 11]),
             ("(_) @s ", "s", ["identifier", "integer", "block", "expression_statement"], [2, 5]),
             ("(_) @s ", "s", ["identifier"], [3, 6, 7, 8]),
             ("(module (_) @s) ", "s", ["expression_statement"], [2])]
    mcombos = [(f, p, q, kind) for f in ("type", "unknown-fn", "conflict", "undef-edge") for p in ([], ["if"], ["for", "scan"]) for q in multi for kind in q[2]]
    if tier == "quick":
        r.shuffle(mcombos)
        mcombos = mcombos[:40]
    for fault, path, (qtext, cap, _, srcs), kind in mcombos:
        guarded = [A.iff(([A.cond("bool", A.call("eq", A.call("node-type", A.cap(cap)), A.string(kind)))], fault_stmts(fault, cap)))]
        prog = A.file([A.stanza(qtext, skeleton(r, cap, path, guarded))])
        src = r.choice(srcs)
        for c in A.both_modes("c20k-%d" % k, prog, src):
            c["fault"] = fault + "@" + kind
            c["path"] = path + ["kind"]
            cases.append(c)
        k += 1
    # whole-file faults: the SAME statement conflicting with itself on different matches, conflicts across stanzas
    for fk in FILE_FAULTS:
        for rep in range(2 if tier == "quick" else 8):
            if fk == "self-conflict-shared-node":
                prog = A.file([A.stanza("(module) @m ", [A.node(A.svar(A.cap("m"), "shared"))]),
                               A.stanza("(identifier) @id ", [A.attrn(A.svar(A.cap("id"), "shared"), A.attr("who", A.call("source-text", A.cap("id"))))])], inherit=["shared"])
            elif fk == "self-dup-scoped-shared":
                prog = A.file([A.stanza("(module) @m ", [A.let(A.svar(A.cap("m"), "ref"), A.cap("m"))]),
                               A.stanza("(identifier) @id ", [A.let(A.svar(A.svar(A.cap("id"), "ref"), "dupe"), A.call("source-text", A.cap("id")))])], inherit=["ref"])
            elif fk == "bad-scoped-value-read-elsewhere":
                # the failing value is defined per identifier; the module's stanza reads it through a comprehension-free path
                prog = A.file([A.stanza("(identifier) @id ", [A.let(A.svar(A.cap("id"), "name"), A.call("plus", A.call("source-text", A.cap("id")), A.integer(1)))]),
                               A.stanza("(module (_)* @xs) @m ", [A.node(A.svar(A.cap("m"), "n")), A.forin("x", A.cap("xs"), [A.let(A.var("keep"), A.var("x"))])]),
                               A.stanza("(identifier) @id ", [A.node(A.var("k")), A.attrn(A.var("k"), A.attr("nm", A.svar(A.cap("id"), "name")))])])
            else:
                prog = A.file([A.stanza("(module) @m ", [A.node(A.svar(A.cap("m"), "shared")), A.attrn(A.svar(A.cap("m"), "shared"), A.attr("who", A.string("module")))]),
                               A.stanza("(identifier) @id ", [A.attrn(A.svar(A.cap("id"), "shared"), A.attr("who", A.call("source-text", A.cap("id"))))])], inherit=["shared"])
            src = r.choice([2, 3, 7, 8, 14, 15])
            for c in A.both_modes("c20-%d" % k, prog, src):
                c["fault"] = fk
                c["path"] = ["file"]
                cases.append(c)
            k += 1
    return cases


def first_stmt_ctx(chain):
    for c in chain:
        if c["ck"] == "stmt":
            return c
    return None


def run(tier):
    run = X.ExecRun(PROP, tier)
    V = run.V
    run.add_cases("c20", make_cases(tier))
    stats = {"faults_reached": 0, "two_statement_contexts": 0, "pretty_checked": 0, "by_fault": {}}
    nontrivial = 0
    for case, res, cl in run.classify_all():
        o = case.get("outcome")
        if not o or res is None or o["status"] != "err" or res["status"] != "err":
            continue
        nontrivial += 1
        stats["faults_reached"] += 1
        stats["by_fault"][case["fault"]] = stats["by_fault"].get(case["fault"], 0) + 1
        payload = X.replay_payload(PROP, case, res, cl)
        chain = o["err"]["chain"]
        ctx = chain[0] if chain else None
        spec_ctx = first_stmt_ctx(res["chain"])
        if spec_ctx is None:
            continue   # not a failure inside a stanza (globals check)
        if ctx is None or ctx["ck"] != "stmt":
            payload["detail"] = "the error carries no statement context (chain: %s)" % json.dumps(chain)[:300]
            V.violation(case["id"] + "-ctx", payload, {"observed": "no-context"})
            continue
        sd = spec_ctx["stmts"][0]
        problems = []
        if len(ctx["stmts"]) == len(spec_ctx["stmts"]):
            pairs = list(zip(ctx["stmts"], spec_ctx["stmts"]))
        else:
            pairs = [(st, sd) for st in ctx["stmts"]]
            if len(spec_ctx["stmts"]) == 2:
                problems.append("a conflict between two statement executions must name both (%d context(s) given)" % len(ctx["stmts"]))
        for st, want in pairs:
            if st["st"] != want["st"]:
                problems.append("stanza location %s, expected %s" % (st["st"], want["st"]))
            if st["nk"] != want["nk"] or st["np"] != want["np"]:
                problems.append("matched node (%s at %s), expected (%s at %s)" % (st["nk"], st["np"], want["nk"], want["np"]))
        adm = [list(x) for x in res.get("adm", [])]
        cited = [st["sl"] for st in ctx["stmts"]]
        if case["mode"] == "strict":
            if cited != [sd["sl"]]:
                problems.append("failing statement cited at %s, expected %s" % (cited, [sd["sl"]]))
        else:
            for sl in cited:
                if sl not in adm:
                    problems.append("statement cited at %s is neither the failing statement nor one enclosing it (admissible: %s)" % (sl, adm))
            # the innermost statement context names the statement whose evaluation failed (for a value that is forced later, the
            # statement that defined it - not the one that happened to read it)
            if sorted(cited) != sorted(x["sl"] for x in spec_ctx["stmts"]) and not problems:
                problems.append("failing statement cited at %s, the failing statement is at %s" % (cited, [x["sl"] for x in spec_ctx["stmts"]]))
            if len(spec_ctx["stmts"]) == 2:
                stats["two_statement_contexts"] += 1
                if sorted(cited) != sorted(s["sl"] for s in spec_ctx["stmts"]):
                    problems.append("a conflict between two statements must name both: cited %s, expected %s" % (cited, [s["sl"] for s in spec_ctx["stmts"]]))
        # pretty rendering
        pretty = o["err"].get("pretty", "")
        if not o["err"].get("pretty_ok"):
            problems.append("pretty rendering panicked")
        else:
            stats["pretty_checked"] += 1
            dsl_lines = case["text"].split("\n")
            for st in ctx["stmts"]:
                for row in (st["sl"][0], st["st"][0]):
                    line = dsl_lines[row] if row < len(dsl_lines) else ""
                    if line.strip() and line.rstrip() not in pretty:
                        problems.append("pretty rendering does not show DSL line %d" % (row + 1))
                # every statement context is rendered completely: statement, stanza and matched node, each with its position
                for what, path, pos in (("statement", "prog.tsg", st["sl"]), ("stanza", "prog.tsg", st["st"]), ("matched node", "src.py", st["np"])):
                    if "%s:%d:%d:" % (path, pos[0] + 1, pos[1] + 1) not in pretty:
                        problems.append("pretty rendering does not cite the %s at %s:%d:%d" % (what, path, pos[0] + 1, pos[1] + 1))
            if pretty.count("matching (") != len(ctx["stmts"]) or pretty.count("in stanza") != len(ctx["stmts"]):
                problems.append("pretty rendering shows %d matched nodes / %d stanzas for %d statement contexts" % (pretty.count("matching ("), pretty.count("in stanza"), len(ctx["stmts"])))
        if problems:
            payload["detail"] = "; ".join(problems[:4])
            V.violation(case["id"] + "-ctx", payload, {"observed": "context", "fault": case["fault"]})
    cov = run.coverage(RULE, {"contexts": stats})
    cov["distinct_nontrivial"] = nontrivial
    return V.finish("model_checking", cov, X.TRUSTED)


def replay(path):
    return X.replay_generic(PROP, path)
