"""C11 Cancellation at any poll stops execution and surfaces as Cancelled."""
import collections
import json
import os

import astgen as A
import common as C
import execpipe as X
import graphiso as G

PROP = "C11"
RULE = ("for each seeded random program/tree pair and each mode: the uncancelled run gives N polls; then EVERY k in 1..N with the flag "
        "failing from its k-th poll on (exhaustive fault enumeration per program); the TLA+ machine is run with the same k (its Cancel "
        "is taken at the k-th poll, in the middle of expression evaluation if need be) and the trace validated; non-trivial = k < N "
        "(the cancellation cuts the run short)")

MAXN_QUICK = 100
MAXN_THOROUGH = 400


def print_programs(tier):
    """print statements whose arguments need evaluation (in lazy mode they are the last thing evaluated; the polls made while an
    argument is evaluated, possibly while a variable is forced for the first time, are cancellation points like any other)"""
    v, c, s, i = A.var, A.cap, A.string, A.integer
    f1 = A.file([A.stanza("(module) @root ", [A.let(v("x"), A.call("source-text", c("root"))), A.node(v("n")), A.attrn(v("n"), A.attr("t", s("a"))),
                                              A.prnt(s("x ="), v("x")), A.prnt(s("root ="), c("root"), A.call("node-type", c("root")))])])
    f2 = A.file([A.stanza("(identifier) @id ", [A.node(A.svar(c("id"), "n")), A.let(v("y"), A.call("plus", i(1), i(2))),
                                                A.prnt(A.svar(c("id"), "n"), A.call("source-text", c("id"))), A.prnt(v("y"))])])
    f3 = A.file([A.stanza("(module) @m ", [A.mut(v("k"), A.lst(i(1))), A.let(v("z"), A.lst(v("k"), A.call("node-type", c("m")))),
                                           A.prnt(v("z"), A.listc(A.call("plus", v("e"), i(1)), "e", A.lst(i(1), i(2)))), A.node(v("n")),
                                           A.prnt(A.call("named-child-count", c("m")))])])
    # runs that fail on their own (undefined edge, conflict, type error after some work): a cancellation that arrives first - also
    # while the value of the failing statement is being evaluated - still wins
    f4 = A.file([A.stanza("(module) @_m ", [A.node(v("a")), A.node(v("b")), A.attre(v("a"), v("b"), A.attr("w", A.call("plus", i(1), A.call("plus", i(2), i(3)))))])])
    f5 = A.file([A.stanza("(identifier) @id ", [A.node(v("a")), A.node(v("b")), A.edge(v("b"), v("a")),
                                                A.attre(v("a"), v("b"), A.attr("t", A.call("source-text", c("id"))), A.attr("u", A.lst(i(1), A.call("plus", i(1), i(1)))))])])
    f6 = A.file([A.stanza("(module) @_m ", [A.node(v("a")), A.attrn(v("a"), A.attr("k", A.call("plus", i(1), i(1)))), A.attrn(v("a"), A.attr("k", A.call("plus", i(2), i(2))))])])
    f7 = A.file([A.stanza("(module) @_m ", [A.node(v("a")), A.attrn(v("a"), A.attr("k", A.call("plus", i(1), A.call("plus", s("x"), i(2)))))])])
    out = []
    srcs = [1, 2, 3] if tier == "quick" else list(range(1, A.n_sources() + 1))
    for k, f in enumerate((f1, f2, f3, f4, f5, f6, f7)):
        for sidx in srcs:
            out += A.both_modes("c11p-%d-%d" % (k, sidx), f, sidx)
    return out


def run(tier):
    run0 = X.ExecRun(PROP, tier)
    d = C.workdir("c11")
    raw = os.path.join(d, "gen.ndjson")
    nprog = 50 if tier == "quick" else 400
    C.gen_cases(nprog, C.seed() * 1000 + 110, raw, "default")
    base = C.read_ndjson(raw)
    base += print_programs(tier)
    for c in base:
        c["cancel_at"] = 0
    run0.add_cases("c11_base", base)
    V = run0.V
    # poll lower bounds on the uncancelled runs, and neutrality of a flag that never fires
    stats = {"programs": 0, "cancel_points": 0, "lower_bound_checks": 0, "neutral_checks": 0}
    kcases = []
    budget = 2500 if tier == "quick" else 40000
    maxn = MAXN_QUICK if tier == "quick" else MAXN_THOROUGH
    for case, res, cl in run0.classify_all(panic_only=True):
        o = case.get("outcome")
        if not o or res is None or o["status"] not in ("ok", "err") or res["status"] == "unsupported":
            continue
        real_by = collections.Counter(e["at"] for e in case["events"] if e.get("e") == "poll")
        stats["lower_bound_checks"] += 1
        for label, cnt in (res["pollsby"].items() if isinstance(res["pollsby"], dict) else []):
            if real_by.get(label, 0) < cnt:
                payload = X.replay_payload(PROP, case, res, cl)
                payload["detail"] = "polls labelled %r: %d, the reference requires at least %d (one per executed statement / attribute / scan iteration / match / deferred evaluation)" % (label, real_by.get(label, 0), cnt)
                V.violation(case["id"] + "-polls", payload, {"observed": "too-few-polls"})
        n = o["polls"]
        if n == 0 or n > maxn or len(kcases) + n > budget:
            continue
        stats["programs"] += 1
        for k in range(1, n + 1):
            cc = {key: case[key] for key in ("mode", "dbg", "prog", "src", "globals", "text")}
            cc = json.loads(json.dumps(cc))
            cc["id"] = "%s@k%d" % (case["id"], k)
            cc["cancel_at"] = k
            cc["total_polls"] = n
            kcases.append(cc)
        # a flag that would fire only after the last poll never fires: same result
        cc = json.loads(json.dumps({key: case[key] for key in ("mode", "dbg", "prog", "src", "globals", "text")}))
        cc["id"] = "%s@never" % case["id"]
        cc["cancel_at"] = n + 3
        cc["total_polls"] = n
        cc["base_outcome"] = {"status": o["status"], "graph": o.get("graph"), "kind": o.get("err", {}).get("kind")}
        kcases.append(cc)
    run = X.ExecRun(PROP, tier)
    run.V = V
    run.add_cases("c11_k", kcases)
    nontrivial = 0
    for case, res, cl in run.classify_all():
        o = case.get("outcome")
        if not o:
            continue
        payload = X.replay_payload(PROP, case, res, cl)
        if case["id"].endswith("@never"):
            stats["neutral_checks"] += 1
            b = case["base_outcome"]
            same = o["status"] == b["status"] and (o["status"] != "ok" or G.equal_exact(o["graph"], b["graph"])) \
                and (o["status"] != "err" or o["err"]["kind"] == b.get("kind"))
            if not same:
                payload["detail"] = "a flag that never fires changed the result (%s vs %s)" % (o["status"], b["status"])
                V.violation(case["id"], payload, {"observed": "not-neutral"})
            continue
        k = case["cancel_at"]
        stats["cancel_points"] += 1
        if k < case["total_polls"]:
            nontrivial += 1
        problems = []
        if o["status"] != "cancelled":
            problems.append("result is %s %s, not the cancellation error itself" % (o["status"], o.get("err", {}).get("kind", "")))
        if o.get("polls_after_fire", 0) != 0:
            problems.append("%d further polls after the flag fired" % o["polls_after_fire"])
        ev = case.get("events") or []
        if ev and not (ev[-1].get("e") == "poll" and sum(1 for e in ev if e.get("e") == "poll") == k):
            problems.append("evaluation continued after the firing poll (last event %s)" % json.dumps(ev[-1]))
        if problems and o["status"] not in ("panic", "abort"):
            payload["detail"] = "cancel at poll %d of %d: %s" % (k, case["total_polls"], "; ".join(problems))
            V.violation(case["id"] + "-cancel", payload, {"observed": o["status"], "cancel": "k"})
    run.states += run0.states
    run.trans += run0.trans
    run.cases = run0.cases + run.cases
    run.results.update(run0.results)
    cov = run.coverage(RULE, {"cancellation": stats, "exhaustive": True})
    cov["distinct_nontrivial"] = nontrivial
    return V.finish("model_checking", cov, X.TRUSTED)


def replay(path):
    return X.replay_generic(PROP, path)
