"""C13 Standard-library functions honour their documented contracts."""
import json
import os

import astgen as A
import common as C
import graphiso as G

PROP = "C13"
RULE = ("exhaustive decision table computed by TLC from the TLA+ transcription of the 21 documented contracts: every function (and one "
        "unknown name) x every argument tuple of length 0-2 over the full value pool (every Value variant, nested lists/sets, 0, 1, "
        "65536, 2^32-1, strings with braces, regex metacharacters and non-ASCII text, syntax and graph nodes), length 3 (thorough: 4) "
        "over a core pool, plus every syntax function x every node of several trees (unicode, ERROR and MISSING nodes, comments, empty and blank files, deep nesting); each row is replayed as one real call; "
        "non-trivial = the call is well-typed enough to reach the function body (result ok, or an error other than arity)")

U32MAX = 4294967295


def pools(tier):
    V = A
    # the tree of the pool's syntax-node values: nodes 3 and 4 are two different `call` nodes starting at the same position
    calls_src = 1 + next(i for i, nm in enumerate(A.source_names()) if "s13_calls" in nm)
    full = [V.vnull(), V.vbool(True), V.vbool(False), V.vint(0), V.vint(1), V.vint(65536), V.vint(U32MAX), V.vint(U32MAX - 1),
            V.vstr(""), V.vstr("a"), V.vstr("{}"), V.vstr("{"), V.vstr("x{}y}}"), V.vstr("{{{}}}"), V.vstr("a.b"), V.vstr("é中"), V.vstr("b"), V.vstr("éé{}中{{x}}{}"), V.vstr("{{}}"), V.vstr("{} = {{}}"),
            V.vlist(), V.vlist(V.vint(1), V.vstr("a")), V.vlist(V.vstr("a"), V.vstr("b")), V.vlist(V.vlist(V.vint(1)), V.vlist()),
            V.vlist(V.vstr(""), V.vstr("usr"), V.vstr("")), V.vlist(V.vint(1), V.vint(1), V.vint(2)), V.vlist(V.vlist(V.vint(4), V.vint(4)), V.vlist(V.vint(4))), V.vlist(V.vstr(""), V.vstr("")), V.vstr("/"), V.vstr("^$"),
            {"t": "set", "e": [V.vint(1), V.vint(2)]}, {"t": "set", "e": []}, {"t": "set", "e": [V.vstr("a"), V.vstr("b")]},
            {"t": "syn", "n": 1}, {"t": "syn", "n": 3}, {"t": "syn", "n": 4}, V.vgn(0), V.vgn(1),
            V.vlist(V.vgn(0), {"t": "syn", "n": 1}), V.vlist({"t": "syn", "n": 3}), V.vlist({"t": "syn", "n": 4}),
            {"t": "set", "e": [{"t": "syn", "n": 3}, {"t": "syn", "n": 4}]}, {"t": "set", "e": [V.vint(1), V.vstr("a")]},
            # sets of syntax nodes are written in the order of their places in the source (start, then end): argument list (1, 6) and
            # attribute (1, 1); identifiers at columns 3, 1 and 5; same place, other kind (expression statement and call): not decided
            {"t": "set", "e": [{"t": "syn", "n": 12}, {"t": "syn", "n": 5}]},
            {"t": "set", "e": [{"t": "syn", "n": 9}, {"t": "syn", "n": 7}, {"t": "syn", "n": 11}, V.vint(3)]},
            {"t": "set", "e": [{"t": "syn", "n": 2}, {"t": "syn", "n": 3}]}]
    core = [V.vnull(), V.vbool(True), V.vint(1), V.vint(U32MAX), V.vstr("a"), V.vstr("{}{}"), V.vstr("a{}b"), V.vstr("/"), V.vstr(""), V.vstr("^$"), V.vstr("$"), V.vstr("é{}中{}"),
            V.vlist(V.vstr("a"), V.vstr("b")), V.vlist(), {"t": "syn", "n": 3}, V.vgn(0)]
    core4 = [V.vbool(False), V.vint(2), V.vint(U32MAX), V.vstr("{}-{}-{}"), V.vstr("x"), V.vlist(V.vint(7))]
    if tier == "thorough":
        return {"full": full, "core": full, "core4": core, "src": calls_src, "srcs": list(range(1, A.n_sources() + 1)), "maxlen": 4}
    # trees for the syntax functions: the pool tree, unicode, errors and missing nodes, empty, comments, blank, deep, mixed
    names = A.source_names()
    want = [i + 1 for i, nm in enumerate(names) if any(k in nm for k in ("s02_", "s09_", "s11_", "s12_", "s15_", "s17a_", "s17c_", "s17d_", "s17e_", "s17f_", "s17g_", "s17h_", "s17i_", "s17k_"))]
    return {"full": full, "core": core[:13] + core[14:], "core4": core4, "src": calls_src, "srcs": sorted(set([3, calls_src] + want)), "maxlen": 3}


def canon(v):
    return G.canon_value(v, None)


def run(tier):
    V = C.Verdicts(PROP, tier)
    d = C.workdir("c13")
    C.ensure_built()
    srcs = C.sources_json()
    pool = pools(tier)
    pool_path = os.path.join(d, "pool.json")
    with open(pool_path, "w", encoding="utf-8") as f:
        json.dump(pool, f, ensure_ascii=False)
    recs, stats, text = C.tlc("MCStdlib", "MCStdlib.cfg", {"POOL": pool_path, "TREES": srcs}, "c13_mc", timeout=3400, mem="8g")
    if not C.tlc_ok(stats):
        raise C.ToolError("MCStdlib failed: %s" % stats["errors"][:3])
    rows = recs.get("REPLAY", [])
    calls = [{"fn": r["fn"], "args": r["args"], "src": r.get("src", pool["src"]), "pre_nodes": 2, "exp": r} for r in rows]
    cin, cout = os.path.join(d, "calls.ndjson"), os.path.join(d, "calls.out.ndjson")
    C.write_ndjson(cin, calls)
    with open(os.devnull, "w") as devnull:
        import subprocess
        p = subprocess.run([C.TSGV, "stdlib", C.CORPUS_PY, cin, cout], stdout=subprocess.PIPE, stderr=devnull, text=True, timeout=3000)
    C.killed_from_outside(p.returncode)
    if p.returncode != 0:
        # a crash of the whole batch is a finding about the library (abort / stack overflow); report it as such
        path = C.write_replay(PROP, "batch-crash", {"property": PROP, "detail": "the replay process died with status %d" % p.returncode})
        V.violations.append(path)
        return V.finish("model_checking", {"states": stats["distinct"], "transitions": stats["states"], "traces_validated_against_impl": 0,
                                           "samples": calls[:2]}, [])
    done = C.read_ndjson(cout)
    counts = {"ok": 0, "err": 0, "unsupported": 0, "by_fn": {}}
    nontrivial = 0
    samples = []
    for c in done:
        exp, real = c["exp"], c["real"]
        fn = c["fn"]
        counts["by_fn"][fn] = counts["by_fn"].get(fn, 0) + 1
        if real["status"] == "skip":
            continue
        name = "%s(%s)" % (fn, ",".join(json.dumps(a, ensure_ascii=False) for a in c["args"]))[:150]
        payload = {"property": PROP, "fn": fn, "args": c["args"], "source": c["src"], "expected": exp, "observed": real}
        sig = {"fn": fn, "observed": real["status"], "msg": real.get("msg", ""), "nargs": len(c["args"])}
        if real["status"] == "panic":
            payload["detail"] = "the call panicked: " + real.get("msg", "")
            V.violation(name, payload, sig)
            continue
        if not exp["ok"] and exp["kind"] == "Unsupported":
            counts["unsupported"] += 1
            V.unsupported += 1
            continue
        if exp["ok"]:
            counts["ok"] += 1
            nontrivial += 1
            if real["status"] != "ok":
                payload["detail"] = "documented result %s, the call failed with %s" % (json.dumps(exp["v"], ensure_ascii=False), real.get("kind"))
                V.violation(name, payload, sig)
            elif canon(real["v"]) != canon(exp["v"]) or real["n"] != exp["n"]:
                payload["detail"] = "documented result %s (graph nodes %d), the call returned %s (graph nodes %d)" % (
                    json.dumps(exp["v"], ensure_ascii=False), exp["n"], json.dumps(real["v"], ensure_ascii=False), real["n"])
                V.violation(name, payload, sig)
        else:
            counts["err"] += 1
            if exp["kind"] != "InvalidParameters":
                nontrivial += 1
            if real["status"] != "err":
                payload["detail"] = "the contract requires an execution error (%s); the call returned %s" % (exp["kind"], json.dumps(real.get("v"), ensure_ascii=False))
                V.violation(name, payload, sig)
            elif real["kind"] != exp["kind"]:
                V.note_drift(name, "error variant %s, specification %s" % (real["kind"], exp["kind"]))
        if len(samples) < 4 and exp["ok"] and len(c["args"]) >= 2:
            samples.append({"fn": fn, "args": c["args"], "expected": exp["v"], "observed": real.get("v")})
    cov = {"states": stats["distinct"], "transitions": stats["states"], "traces_validated_against_impl": len(done),
           "samples": samples or calls[:2], "evaluations": len(done), "distinct_nontrivial": nontrivial, "rule": RULE,
           "table": counts, "exhaustive": True, "pool_sizes": {k: len(v) for k, v in pool.items() if isinstance(v, list)}}
    return V.finish("model_checking", cov, [
        "`replace` is specified for literal patterns and $-free replacements only (beyond that the contract is the regex crate's)",
        "text of sets whose order depends on string comparison, or on the order of two syntax nodes of one place, is not decided by the specification (skipped)",
        "syntax-node facts (text, type, positions, named children) are tree-sitter's, extracted independently of the library"])


def replay(path):
    with open(path, encoding="utf-8") as f:
        rp = json.load(f)
    d = C.workdir("c13_replay")
    C.ensure_built()
    cin, cout = os.path.join(d, "c.ndjson"), os.path.join(d, "o.ndjson")
    C.write_ndjson(cin, [{"fn": rp["fn"], "args": rp["args"], "src": rp["source"], "pre_nodes": 2}])
    C.sh([C.TSGV, "stdlib", C.CORPUS_PY, cin, cout], timeout=60)
    real = C.read_ndjson(cout)[0]["real"]
    exp = rp["expected"]
    print("observed", json.dumps(real, ensure_ascii=False))
    bad = real["status"] == "panic" or (exp["ok"] and (real["status"] != "ok" or canon(real["v"]) != canon(exp["v"]))) or (not exp["ok"] and real["status"] != "err")
    if bad:
        print("VIOLATION property=%s replay=%s" % (PROP, path))
        return 1
    return 0
