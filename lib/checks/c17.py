"""C17 Graph, attribute and variable containers behave like their map/set models."""
import json
import os
import subprocess

import common as C

PROP = "C17"
RULE = ("TLA+ map/set model of Graph/GraphNode/Attributes/Variables (edge list = sequence kept sorted by the machine's own AddEdge): "
        "exhaustive BFS over all call sequences of length 4 (thorough 5) on 2 nodes, 2 names, 5 values with invariants OutSorted, "
        "DenseIndices, LookupIffAdded, EdgeCountIsSetSize, NestedNeverWritesOuter; plus random sequences of length 200 on up to 12 "
        "nodes (more than 8 edges per node, leaving the inline small-vector); every sequence is replayed call by call on the real "
        "objects and every return value compared; non-trivial = every sequence (each has >= 4 operations)")


def run(tier):
    V = C.Verdicts(PROP, tier)
    d = C.workdir("c17")
    C.ensure_built()
    cfg_bfs = "MCContainers.cfg"
    if tier == "thorough":
        with open(os.path.join(C.SPEC, "MCContainers.cfg")) as f:
            txt = f.read().replace("MaxLen = 4", "MaxLen = 5")
        with open(os.path.join(C.SPEC, "MCContainers5.cfg"), "w") as f:
            f.write(txt)
        cfg_bfs = "MCContainers5.cfg"
    sin, sout = os.path.join(d, "seqs.ndjson"), os.path.join(d, "bad.ndjson")
    # the BFS prints up to millions of sequences: they go straight to the file the replay reads (nothing is held in memory)
    recs, stats, text = C.tlc("MCContainers", cfg_bfs, {}, "c17_bfs", timeout=3000, mem="12g", sink={"REPLAY": sin})
    if not C.tlc_ok(stats):
        raise C.ToolError("MCContainers (BFS) failed: %s" % stats["errors"][:3])
    nseqs = stats["sink_counts"]["REPLAY"]
    with open(sin, encoding="utf-8") as f:
        sample_seq = json.loads(f.readline() or "{}")
    sim_s = 25 if tier == "quick" else 600
    recs2, stats2, text2 = C.tlc("MCContainers", "MCContainersSim.cfg", {}, "c17_sim", timeout=sim_s + 120, nworkers=1,
                                 extra=["-simulate", "num=100000000", "-depth", "201", "-seed", str(C.seed() + 1)], kill_after=sim_s)
    if not C.tlc_ok(stats2):
        raise C.ToolError("MCContainers (simulation) failed: %s" % stats2["errors"][:3])
    sims = recs2.get("REPLAY", [])
    with open(sin, "a", encoding="utf-8") as f:
        for x in sims:
            f.write(json.dumps(x, ensure_ascii=False) + "\n")
    nall = nseqs + len(sims)
    try:
        p = subprocess.run([C.TSGV, "containers", sin, sout], stdout=subprocess.PIPE, stderr=subprocess.DEVNULL, text=True, timeout=3000)
    except subprocess.TimeoutExpired:
        raise C.ToolError("replaying the container sequences timed out")
    if p.returncode in (-9, 137):
        raise C.ToolError("the replay process was killed from outside (status %d: out of memory or operator), no verdict" % p.returncode)
    if p.returncode != 0:
        V.violation("replay-crash", {"property": PROP, "detail": "the replay process died with status %d" % p.returncode}, {"observed": "abort"})
    bad = C.read_ndjson(sout) if os.path.exists(sout) else []
    for i, b in enumerate(bad[:50]):
        V.violation("seq-%d" % i, {"property": PROP, "detail": "operation %s: model and implementation disagree: %s" % (b["mismatch"].get("op"), json.dumps(b["mismatch"])[:400]),
                                   "sequence": b["seq"], "mismatch": b["mismatch"]}, {"observed": "container-mismatch", "op": b["mismatch"].get("op", "")})
    big = max((max((len(e) for e in s["edges"]), default=0) for s in sims), default=0)
    cov = {"states": stats["distinct"] + stats2.get("distinct", 0), "transitions": stats["states"] + stats2.get("states", 0),
           "traces_validated_against_impl": nall,
           "samples": [sample_seq.get("hist")] if sample_seq else [],
           "evaluations": nall, "distinct_nontrivial": nall, "rule": RULE,
           "bfs": {"sequences": nseqs, "distinct_states": stats["distinct"], "depth": stats["depth"], "exhaustive": True},
           "simulation": {"sequences": len(sims), "length": 200, "max_edges_on_one_node": big},
           "operations_replayed": int((p.stdout or "0 0 0 0").split()[2]) if p.stdout else 0, "exhaustive": True}
    return V.finish("model_checking", cov, ["the nested variable set borrows the outer one immutably (Rust), so sequences first fill the outer set, then the nested one",
                                            "Attributes::add is documented to replace the value on conflict and return the old one (D7)"])


def replay(path):
    with open(path, encoding="utf-8") as f:
        rp = json.load(f)
    C.ensure_built()
    d = C.workdir("c17_replay")
    sin, sout = os.path.join(d, "s.ndjson"), os.path.join(d, "b.ndjson")
    C.write_ndjson(sin, [rp["sequence"]])
    C.sh([C.TSGV, "containers", sin, sout], timeout=60)
    if C.read_ndjson(sout):
        print("VIOLATION property=%s replay=%s" % (PROP, path))
        return 1
    return 0
