"""C01 Execution yields exactly the graph the language reference prescribes."""
import os

import common as C
import execpipe as X

PROP = "C01"
RULE = ("seeded type-directed random programs (whole statement/expression grammar, nesting <= 4, <= 8 stanzas) on the "
        "corpus trees, both modes, each run validated against the TLA+ machine; non-trivial = at least one statement "
        "executed; distinct by (text, tree, mode, globals, config)")


def run(tier):
    run = X.ExecRun(PROP, tier)
    d = C.workdir("c01")
    n = 150 if tier == "quick" else 2500
    for k, (profile, cnt) in enumerate([("default", n), ("deep", n // 3), ("small", n // 3)]):
        raw = os.path.join(d, "raw_%s.ndjson" % profile)
        C.gen_cases(cnt, C.seed() * 1000 + k, raw, profile)
        run.add_batch("c01_" + profile, raw)
    # shaped programs of the scoped-variable and scan checks (inheritance chains, same-range nodes, tying scan arms)
    import checks.c04 as c04
    run.add_cases("c01_shaped", c04.shaped_cases(tier, "c01s"))
    run.classify_all()
    return run.V.finish("model_checking", run.coverage(RULE), X.TRUSTED)


def replay(path):
    return X.replay_generic(PROP, path)
