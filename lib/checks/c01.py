"""C01 Execution yields exactly the graph the language reference prescribes."""
import os

import common as C
import execpipe as X

PROP = "C01"
RULE = ("seeded type-directed random programs (whole statement/expression grammar, nesting <= 4, <= 8 stanzas; one profile with 15% "
        "deliberately ill-typed sub-expressions, out-of-range captures and unknown functions, so that error paths are compared too) on the "
        "corpus trees, both modes, each run validated against the TLA+ machine; non-trivial = at least one statement "
        "executed; distinct by (text, tree, mode, globals, config)")


def edge_shapes(tier):
    """several edges out of (and into) one node, created in one order and given attributes in another, in the same stanza or a later one"""
    import astgen as A
    v, c, i = A.var, A.cap, A.integer
    r = A.rng(1)
    cases = []
    k = 0
    for nsinks in (2, 3, 4, 5, 7, 12):
        for rep in range(2 if tier == "quick" else 12):
            names = ["b%d" % j for j in range(nsinks)]
            create = names[:]
            r.shuffle(create)
            order = names[:]
            r.shuffle(order)
            later = rep % 2 == 1
            hub = A.svar(c("m"), "hub") if later else v("a")
            sink = (lambda n: A.svar(c("m"), n)) if later else v
            # (every node carries its name: otherwise the sinks could be renumbered at will and an attribute on the wrong edge
            # would go unnoticed)
            st = [A.node(hub)] + [A.node(sink(n)) for n in create] + [A.attrn(sink(n), A.attr("id", A.string(n))) for n in create]
            # creation order of the nodes differs from the order in which the edges are added
            r.shuffle(create)
            st += [A.edge(hub, sink(n)) for n in create]
            if rep % 3 == 0:
                st += [A.edge(sink(n), hub) for n in create[:2]]
            at = [A.attre(hub, sink(n), A.attr("w", i(j)), A.attr("to", A.string(n))) for j, n in enumerate(order)]
            if rep % 3 == 0:
                at += [A.attre(sink(n), hub, A.attr("back", i(1))) for n in create[:2]]
            if later:
                prog = A.file([A.stanza("(module) @m ", st), A.stanza("(module) @m ", at)])
            else:
                prog = A.file([A.stanza("(module) @m ", st + at)])
            cases += A.both_modes("c01e-%d" % k, prog, 1 + k % 3)
            k += 1
    # an attribute on an edge, then another edge out of the same node to an OLDER node, then the first edge again (a lookup that is
    # repeated after the edge list has changed)
    for rep in range(3 if tier == "quick" else 10):
        names = ["o%d" % j for j in range(4)]
        st = [A.node(v(n)) for n in names] + [A.node(v("hub"))] + [A.attrn(v(n), A.attr("id", A.string(n))) for n in names]
        order = names[:]
        r.shuffle(order)
        for j, n in enumerate(order):
            st.append(A.edge(v("hub"), v(n)))
            if j > 0:
                # the edge looked up last, looked up again right after the edge list has changed
                st.append(A.attre(v("hub"), v(order[0]), A.attr("after%d" % j, i(j))))
            st.append(A.attre(v("hub"), v(n), A.attr("first", i(j))))
            if j > 0:
                prev = order[r.randrange(j)]
                st.append(A.attre(v("hub"), v(prev), A.attr("again%d" % j, A.string(prev))))
                st.append(A.attre(v("hub"), v(order[0]), A.attr("first", i(0))))
        cases += A.both_modes("c01e2-%d" % rep, A.file([A.stanza("(module) @_m ", st)]), 1 + rep % 3)
    # forward references and cycles between scoped variables (lazy: a forward reference is fine, a cycle is an error; strict: both fail)
    m = c("m")
    sv = lambda n: A.svar(m, n)
    shapes = [
        [A.let(sv("x"), sv("y")), A.let(sv("y"), i(1)), A.node(v("n")), A.attrn(v("n"), A.attr("v", sv("x")))],
        [A.let(sv("x"), sv("y")), A.let(sv("y"), sv("x")), A.node(v("n")), A.attrn(v("n"), A.attr("v", sv("x")))],
        [A.let(sv("x"), sv("x"))],
        [A.let(sv("x"), A.lst(sv("y"))), A.let(sv("y"), A.call("concat", sv("z"), A.lst(i(1)))), A.let(sv("z"), sv("x")), A.node(v("n"))],
        [A.let(sv("x"), A.lst(sv("y"))), A.let(sv("y"), A.call("concat", sv("z"), A.lst(i(1)))), A.let(sv("z"), A.lst(i(0))), A.node(v("n")),
         A.attrn(v("n"), A.attr("v", sv("x")))],
        [A.mut(sv("x"), sv("y")), A.let(sv("y"), sv("x"))],
        [A.node(sv("n")), A.let(sv("x"), sv("y")), A.attrn(sv("n"), A.attr("v", sv("x"))), A.let(sv("y"), sv("x"))],
        [A.let(v("a"), sv("late")), A.node(v("n")), A.edge(v("n"), v("a")), A.node(sv("late"))],
    ]
    for j, st in enumerate(shapes):
        cases += A.both_modes("c01c-%d" % j, A.file([A.stanza("(module) @m ", st)]), 1 + j % 3)
        # the same with the definitions in a second stanza (other match, same syntax node)
        cases += A.both_modes("c01c2-%d" % j, A.file([A.stanza("(module) @m ", st[:1]), A.stanza("(module) @m ", st[1:] or [A.node(v("k"))])]), 2)
    # the body of an attribute shorthand sees its parameter only - not the variables of the block that uses it (the loader does not
    # look into shorthand bodies, so such a file loads and the run must fail)
    sh_outer = A.shorthand("sh", "p", [A.attr("a", v("p")), A.attr("b", v("outer"))])
    sh_loop = A.shorthand("shl", "p", [A.attr("a", A.lst(v("p"), v("it")))])
    sh_ok = A.shorthand("shk", "p", [A.attr("a", v("p")), A.attr("b", A.listc(A.call("plus", v("q"), i(1)), "q", A.lst(i(1), i(2))))])
    bodies = [
        ([A.let(v("outer"), i(1)), A.node(v("n")), A.attrn(v("n"), A.attr("sh", i(2)))], [sh_outer]),
        ([A.node(v("n")), A.forin("it", A.lst(i(1), i(2)), [A.attrn(v("n"), A.attr("shl", i(2)))])], [sh_loop]),
        ([A.node(v("n")), A.iff(([A.cond("bool", A.true())], [A.let(v("outer"), i(1)), A.attrn(v("n"), A.attr("sh", i(2)))]))], [sh_outer]),
        ([A.node(v("n")), A.let(v("q"), i(7)), A.attrn(v("n"), A.attr("shk", i(2)))], [sh_ok]),
        ([A.node(v("n")), A.node(v("k")), A.edge(v("n"), v("k")), A.let(v("outer"), i(1)), A.attre(v("n"), v("k"), A.attr("sh", i(2)))], [sh_outer]),
    ]
    for j, (st, shs) in enumerate(bodies):
        cases += A.both_modes("c01sh-%d" % j, A.file([A.stanza("(module) @_m ", st)], shorthands=shs), 1 + j % 3)
    # every syntax function on every node that has a parent, on trees with zero-width nodes (MISSING nodes, empty blocks), comments,
    # errors, same-range parents and children, no final line break
    names = A.source_names()
    odd = [j + 1 for j, nm in enumerate(names) if any(k in nm for k in ("s12_", "s17a_", "s17e_", "s17f_", "s17g_", "s17h_", "s09_", "s17k_"))]
    synq = "(_ (_) @x) "
    syn_stmts = [A.node(v("n")), A.attrn(v("n"), A.attr("idx", A.call("named-child-index", c("x"))), A.attr("ty", A.call("node-type", c("x"))),
                                 A.attr("txt", A.call("source-text", c("x"))), A.attr("sr", A.call("start-row", c("x"))), A.attr("sc", A.call("start-column", c("x"))),
                                 A.attr("er", A.call("end-row", c("x"))), A.attr("ec", A.call("end-column", c("x"))), A.attr("cnt", A.call("named-child-count", c("x"))))]
    for sidx in odd:
        cases += A.both_modes("c01syn-%d" % sidx, A.file([A.stanza(synq, syn_stmts)]), sidx)
    # a variable named like a global - one the file declares or one the caller merely supplies - cannot be defined
    gl = {"extra": A.vstr("x"), "G": A.vstr("g")}
    hide = [
        ([A.let(v("extra"), i(1)), A.node(v("n")), A.attrn(v("n"), A.attr("v", v("extra")))], [], []),
        ([A.node(v("n")), A.forin("extra", A.lst(i(1)), [A.attrn(v("n"), A.attr("v", v("extra")))])], [], []),
        ([A.mut(v("extra"), i(1)), A.assign(v("extra"), i(2))], [], []),
        ([A.node(v("n")), A.attrn(v("n"), A.attr("sh", i(2)))], [A.glob("G")], [A.shorthand("sh", "G", [A.attr("a", v("G"))])]),
        ([A.node(v("n")), A.attrn(v("n"), A.attr("sh", i(2)))], [], [A.shorthand("sh", "extra", [A.attr("a", v("extra"))])]),
        ([A.node(v("n")), A.attrn(v("n"), A.attr("l", A.listc(v("extra"), "extra", A.lst(i(1), i(2)))))], [], []),
    ]
    for j, (st, globs, shs) in enumerate(hide):
        cases += A.both_modes("c01g-%d" % j, A.file([A.stanza("(module) @_m ", st)], globals_=globs, shorthands=shs), 1 + j % 3, globals_=gl)
    # a wide tree: 300 sibling statements, each paired with the last one (no match may be lost, in either mode)
    pair_q = "(module (expression_statement (identifier) @name) (pass_statement) @end) "
    cases += A.both_modes("c01wide", A.file([A.stanza(pair_q, [A.node(v("n")), A.attrn(v("n"), A.attr("of", A.call("source-text", c("name")))), A.let(v("e"), c("end"))])]), A.wide_source())
    return cases


def run(tier):
    run = X.ExecRun(PROP, tier)
    d = C.workdir("c01")
    n = 150 if tier == "quick" else 2500
    for k, (profile, cnt) in enumerate([("default", n), ("deep", n // 3), ("small", n // 3), ("noisy", n // 2)]):
        raw = os.path.join(d, "raw_%s.ndjson" % profile)
        C.gen_cases(cnt, C.seed() * 1000 + k, raw, profile)
        run.add_batch("c01_" + profile, raw)
    # shaped programs of the scoped-variable and scan checks (inheritance chains, same-range nodes, tying scan arms)
    import checks.c04 as c04
    run.add_cases("c01_shaped", c04.shaped_cases(tier, "c01s"))
    run.add_cases("c01_edges", edge_shapes(tier))
    # arms with several conditions of which a later one fails or allocates although an earlier one is false; scans with groups that do
    # not take part in the match (shaped programs of the strict/lazy comparison, here against the machine)
    import checks.c02 as c02
    run.add_cases("c01_conds", [dict(c, id="c01k" + c["id"][4:]) for c in c02.shaped_cases(tier)])
    # programs enumerated by TLC over the wide statement pool (MCExec; Total and EdgeSet hold on the machines for every one of them)
    import mcexec
    import astgen as A2
    wprogs, wstats, wt = mcexec.run(tier, "c01_mcexec_wide", wide=True)
    wr = A2.rng(101)
    wsample = wprogs if len(wprogs) <= (200 if tier == "quick" else 8000) else wr.sample(wprogs, 200 if tier == "quick" else 8000)
    run.add_cases("c01_enum_wide", mcexec.cases(wsample, wt, "c01w"))
    run.states += wstats["distinct"]
    run.trans += wstats["states"]
    run.classify_all()
    # stanzas in file order, matches in cursor order (strict mode): the `match` events against raw tree-sitter
    import checks.c03 as c03
    order_checked = 0
    for case, res, cl in run.classified:
        o = case.get("outcome")
        if not o or case.get("mode") != "strict" or o["status"] != "ok" or o.get("truncated") or "matches" not in case:
            continue
        want = [(loc[0], loc[1], root) for (_, loc, root, _) in c03.expected_matches(case)]
        got = [(e["row"], e["col"], e["root"]) for e in case["events"] if e.get("e") == "match"]
        order_checked += 1
        if got != want:
            payload = X.replay_payload(PROP, case, res, cl)
            payload["detail"] = "blocks did not run once per match, stanzas in file order and matches in cursor order: ran %s, expected %s" % (got[:10], want[:10])
            run.V.violation(case["id"] + "-order", payload, {"observed": "block-order"})
    return run.V.finish("model_checking", run.coverage(RULE, {"block_order_checked": order_checked}), X.TRUSTED)


def replay(path):
    return X.replay_generic(PROP, path)
