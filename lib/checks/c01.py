"""C01 Execution yields exactly the graph the language reference prescribes."""
import os

import common as C
import execpipe as X


PROP = "C01"


def run(tier):
    V = C.Verdicts(PROP, tier)
    d = C.workdir("c01")
    n = 150 if tier == "quick" else 3000
    profile_plan = [("default", n), ("deep", n // 3)]
    all_cases, all_results = [], {}
    states = trans = 0
    for k, (profile, cnt) in enumerate(profile_plan):
        raw = os.path.join(d, "raw_%s.ndjson" % profile)
        C.gen_cases(cnt, C.seed() * 1000 + k, raw, profile)
        cases, results, stats = X.execute_and_validate("c01_" + profile, raw)
        all_cases += cases
        all_results.update(results)
        states += stats["distinct"]
        trans += stats["states"]
    return finish(V, all_cases, all_results, states, trans)


def finish(V, cases, results, states, trans):
    counts = {"agree_ok": 0, "agree_err": 0, "skip": 0, "unsupported": 0, "load_err": 0}
    validated = 0
    distinct = set()
    samples = []
    for case in cases:
        res = results.get(case.get("id"))
        cl = X.classify(case, res)
        if cl["verdict"] == "violation":
            V.violation(case["id"], X.replay_payload(PROP, case, res, cl), cl.get("sig"))
        elif cl["verdict"] == "unsupported":
            V.unsupported += 1
            counts["unsupported"] += 1
        elif cl["verdict"] == "skip":
            counts["skip"] += 1
            if cl.get("load_err"):
                counts["load_err"] += 1
        else:
            counts["agree_" + cl["detail"] if cl["detail"] in ("ok", "err") else "agree_ok"] += 1
        if cl["drift"]:
            V.note_drift(case["id"], cl["drift"])
        if res is not None:
            validated += 1
            if X.nontrivial(case):
                distinct.add((case.get("text"), case.get("src"), case.get("mode"), str(case.get("globals"))))
        if len(samples) < 3 and X.nontrivial(case):
            samples.append(X.sample_of(case))
    cov = {
        "states": states, "transitions": trans, "traces_validated_against_impl": validated,
        "samples": samples or [X.sample_of(c) for c in cases[:1]],
        "evaluations": len(cases), "distinct_nontrivial": len(distinct),
        "rule": "seeded type-directed random programs (whole statement/expression grammar, nesting <= 4, <= 8 stanzas) on the "
                "corpus trees, both modes; non-trivial = at least one statement executed; distinct by (text, tree, mode, globals)",
        "outcomes": counts,
        "exhaustive": False,
    }
    return V.finish("model_checking", cov, [
        "tree-sitter query matching, the python grammar and the regex crate are trusted (their results are inputs of the specification)",
        "graphs are compared up to renumbering of graph nodes",
    ])


def replay(path):
    import json
    with open(path, encoding="utf-8") as f:
        rp = json.load(f)
    d = C.workdir("c01_replay")
    raw = os.path.join(d, "raw.ndjson")
    C.write_ndjson(raw, [rp["case"]])
    cases, results, stats = X.execute_and_validate("c01_replay", raw)
    V = C.Verdicts(PROP, "quick")
    rc = 0
    for case in cases:
        cl = X.classify(case, results.get(case.get("id")))
        print(cl["verdict"], cl["detail"])
        if cl["verdict"] == "violation":
            print("VIOLATION property=%s replay=%s" % (PROP, path))
            rc = 1
    return rc
