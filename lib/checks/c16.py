"""C16 Globals are required unless defaulted, list-typed when declared, read-only."""
import itertools
import json
import os

import astgen as A
import common as C
import execpipe as X

PROP = "C16"
RULE = ("exhaustive product: declaration sets (1-2 globals, thorough: up to 3, sampled for 3) x quantifier in {none, ?, *, +} x default present/absent x "
        "supply patterns (absent, string, integer, boolean, null, list, empty list, supplied through an outer variable set) x {strict, "
        "lazy}; the program reads every global at block depths 0-3 (stanza, if arm, for body, scan arm) and iterates list-typed ones; "
        "plus the static rules (redeclare, hide, assign) which must be rejected at load time, and a shorthand parameter named like a global, which must make the run fail; caller's variable sets are compared "
        "before/after; non-trivial = at least one global declared and execution reached the stanzas or failed in the globals check")

QUANTS = ["one", "opt", "star", "plus"]
SUPPLY = {
    "absent": None,
    "str": A.vstr("sv"),
    "int": A.vint(7),
    "bool": A.vbool(True),
    "null": A.vnull(),
    "list": A.vlist(A.vstr("l1"), A.vstr("l2")),
    "empty": A.vlist(),
    "outer": A.vstr("from-outer"),
    "shadow": A.vstr("from-inner"),       # the caller's set binds the name and so does the set it is nested in (other value)
    "shadowlist": A.vlist(A.vstr("i1")),  # the same with a list in the nested set and a string in the outer one
}


def reader_program(decls):
    stmts = [A.node(A.var("n"))]
    for name, q, dflt in decls:
        g = A.var(name)
        inner_for = [A.attrn(A.var("n"), A.attr(name + "_for", g))]
        inner_if = [A.attrn(A.var("n"), A.attr(name + "_if", g)), A.forin("x", A.lst(A.integer(1)), inner_for)]
        stmts.append(A.attrn(A.var("n"), A.attr(name + "_top", g)))
        stmts.append(A.iff(([A.cond("bool", A.true())], inner_if)))
        stmts.append(A.scan(A.string("a"), ("a", [A.attrn(A.var("n"), A.attr(name + "_scan", g))])))
        if q in ("star", "plus"):
            stmts.append(A.forin("e", g, [A.node(A.var("m")), A.attrn(A.var("m"), A.attr(name + "_elem", A.var("e")))]))
    gl = [A.glob(name, q, dflt) for name, q, dflt in decls]
    return A.file([A.stanza("(module) @_m ", stmts)], globals_=gl)


def make_cases(tier):
    cases = []
    maxg = 2 if tier == "quick" else 3
    one = [(q, d) for q in QUANTS for d in (None, "dflt")]
    supplies = list(SUPPLY)
    k = 0
    r = A.rng(16)
    for ng in range(1, maxg + 1):
        combos = list(itertools.product(one, repeat=ng))
        if ng >= 3:
            r.shuffle(combos)
            combos = combos[:96]
        for combo in combos:
            decls = [("G%d" % i, q, d) for i, (q, d) in enumerate(combo)]
            sups = list(itertools.product(supplies, repeat=ng))
            if ng >= 2:
                r.shuffle(sups)
                keep = sups[: (6 if tier == "quick" else (24 if ng == 2 else 8))]
                # always: the first global takes its default (or is missing) while a later one is absent / wrongly typed
                must = [sp for sp in sups if sp[0] == "absent" and any(x in ("absent", "str", "int") for x in sp[1:])][: (3 if tier == "quick" else (16 if ng == 2 else 8))]
                sups = keep + [m for m in must if m not in keep]
            for sup in sups:
                glob, outer, shadowed = {}, [], {}
                for (name, _, _), sname in zip(decls, sup):
                    if SUPPLY[sname] is not None:
                        glob[name] = SUPPLY[sname]
                        if sname == "outer":
                            outer.append(name)
                        if sname.startswith("shadow"):
                            shadowed[name] = A.vstr("shadowed-outer-value")
                prog = reader_program(decls)
                for c in A.both_modes("c16-%d" % k, prog, 1, globals_=glob, globals_outer=outer, globals_shadowed=shadowed):
                    c["decls"] = [[n, q, d or ""] for n, q, d in decls]
                    c["supply"] = list(sup)
                    cases.append(c)
                k += 1
    # files without any stanza: the globals are checked all the same
    for i, (decls, glob) in enumerate([([("G0", "one", None)], {}), ([("G0", "star", None)], {"G0": A.vstr("not-a-list")}),
                                        ([("G0", "one", "d"), ("G1", "plus", None)], {}), ([("G0", "one", None)], {"G0": A.vstr("x")})]):
        prog = A.file([], globals_=[A.glob(n, q, d) for n, q, d in decls])
        for c in A.both_modes("c16-nostanza-%d" % i, prog, 1, globals_=glob):
            c["decls"] = [[n, q, d or ""] for n, q, d in decls]
            c["supply"] = ["str" if n in glob else "absent" for n, _, _ in decls]
            c["no_stanza"] = True
            cases.append(c)
    # static rules: must be rejected by the loader
    static = {
        "redeclare": A.file([A.stanza("(module) @_m ", [A.node(A.var("n"))])], globals_=[A.glob("G"), A.glob("G")]),
        "hide-let": A.file([A.stanza("(module) @_m ", [A.let(A.var("G"), A.integer(1))])], globals_=[A.glob("G")]),
        "hide-node": A.file([A.stanza("(module) @_m ", [A.node(A.var("G"))])], globals_=[A.glob("G")]),
        "hide-for": A.file([A.stanza("(module) @_m ", [A.forin("G", A.lst(A.integer(1)), [A.node(A.var("n"))])])], globals_=[A.glob("G")]),
        "hide-nested": A.file([A.stanza("(module) @_m ", [A.iff(([A.cond("bool", A.true())], [A.mut(A.var("G"), A.integer(1))]))])], globals_=[A.glob("G")]),
        "assign": A.file([A.stanza("(module) @_m ", [A.assign(A.var("G"), A.integer(1))])], globals_=[A.glob("G")]),
        "assign-nested": A.file([A.stanza("(module) @_m ", [A.scan(A.string("a"), ("a", [A.assign(A.var("G"), A.integer(1))]))])], globals_=[A.glob("G")]),
    }
    for name, prog in static.items():
        for c in A.both_modes("c16-static-" + name, prog, 1, globals_={"G": A.vstr("x")}):
            c["static_rule"] = name
            cases.append(c)
    # a global can never be hidden: the parameter of an attribute shorthand is a variable definition like any other (not seen by the
    # static checker, so the run must fail - in both modes - instead of reading one value for the other)
    body = [A.node(A.var("n")), A.attrn(A.var("n"), A.attr("def", A.string("attr-value")))]
    hide = {
        "shorthand-param": (A.file([A.stanza("(module) @_m ", body)], globals_=[A.glob("G")], shorthands=[A.shorthand("def", "G", [A.attr("symbol", A.var("G"))])]), {"G": A.vstr("x")}),
        "shorthand-param-default": (A.file([A.stanza("(module) @_m ", body)], globals_=[A.glob("G", "one", "dflt")], shorthands=[A.shorthand("def", "G", [A.attr("symbol", A.var("G"))])]), {}),
        "shorthand-param-list": (A.file([A.stanza("(module) @_m ", body + [A.forin("e", A.var("G"), [A.node(A.var("k"))])])], globals_=[A.glob("G", "star")],
                                        shorthands=[A.shorthand("def", "G", [A.attr("symbol", A.var("G"))])]), {"G": A.vlist(A.vstr("l"))}),
    }
    for name, (prog, glob) in hide.items():
        for c in A.both_modes("c16-hide-" + name, prog, 1, globals_=glob):
            c["hide_runtime"] = name
            cases.append(c)
    return cases


def run(tier):
    run = X.ExecRun(PROP, tier)
    V = run.V
    run.add_cases("c16", make_cases(tier))
    stats = {"missing": 0, "expected_list": 0, "defaults_used": 0, "static_rejected": 0, "unchanged_checks": 0}
    nontrivial = 0
    for case, res, cl in run.classify_all():
        o = case.get("outcome")
        if not o:
            continue
        payload = X.replay_payload(PROP, case, res, cl)
        if "static_rule" in case:
            if o["status"] != "load_err":
                payload["detail"] = "a file that breaks the static rule %r was accepted by the loader" % case["static_rule"]
                V.violation(case["id"], payload, {"observed": o["status"], "static": case["static_rule"]})
            else:
                stats["static_rejected"] += 1
            continue
        if "hide_runtime" in case:
            nontrivial += 1
            if o["status"] == "ok":
                payload["detail"] = "a shorthand parameter named like a global (%s) was accepted and the run succeeded: the global is hidden (or hides the attribute value)" % case["hide_runtime"]
                V.violation(case["id"] + "-hide", payload, {"observed": "ok", "hide": case["hide_runtime"]})
            else:
                stats["hiding_rejected"] = stats.get("hiding_rejected", 0) + 1
            continue
        nontrivial += 1
        if o["status"] in ("panic", "abort", "load_err"):
            if o["status"] == "load_err":
                payload["detail"] = "unexpectedly rejected: " + o["err"]["display"]
                V.violation(case["id"] + "-load", payload, {"observed": "load_err"})
            continue
        stats["unchanged_checks"] += 1
        if not o.get("globals_unchanged", True):
            payload["detail"] = "the caller's variable set was changed by execution"
            V.violation(case["id"] + "-caller", payload, {"observed": "caller-globals-changed"})
        # the property's outcome table, stated directly (independently of the machine)
        decls, sup = case["decls"], case["supply"]
        want_missing = any(s == "absent" and not d for (n, q, d), s in zip(decls, sup))
        kind = o.get("err", {}).get("kind")
        if (kind == "MissingGlobalVariable") != (want_missing and kind in ("MissingGlobalVariable", None) or (kind == "MissingGlobalVariable" and want_missing)):
            pass
        if kind == "MissingGlobalVariable":
            stats["missing"] += 1
            if not want_missing:
                payload["detail"] = "MissingGlobalVariable although every declared global is supplied or defaulted"
                V.violation(case["id"] + "-missing", payload, {"observed": "missing"})
        if kind == "ExpectedList":
            stats["expected_list"] += 1
        if o["status"] == "ok" and case.get("no_stanza"):
            if want_missing:
                payload["detail"] = "execution succeeded although a declared global without default was not supplied (file without stanzas)"
                V.violation(case["id"] + "-missing", payload, {"observed": "not-missing"})
        elif o["status"] == "ok":
            if want_missing:
                payload["detail"] = "execution succeeded although a declared global without default was not supplied"
                V.violation(case["id"] + "-missing", payload, {"observed": "not-missing"})
            attrs = o["graph"]["nodes"][0]["attrs"] if o["graph"]["nodes"] else {}
            for (n, q, d), s in zip(decls, sup):
                want = SUPPLY[s] if s != "absent" else A.vstr(d)
                if s == "absent":
                    stats["defaults_used"] += 1
                for suffix in ("_top", "_if", "_for", "_scan"):
                    got = attrs.get(n + suffix)
                    if json.dumps(got, sort_keys=True) != json.dumps(want, sort_keys=True):
                        payload["detail"] = "global %s read at %s evaluates to %s, expected %s" % (n, suffix, json.dumps(got), json.dumps(want))
                        V.violation(case["id"] + "-value", payload, {"observed": "value"})
                        break
    cov = run.coverage(RULE, {"globals": stats, "exhaustive": True})
    cov["distinct_nontrivial"] = nontrivial
    return V.finish("model_checking", cov, X.TRUSTED)


def replay(path):
    return X.replay_generic(PROP, path)
