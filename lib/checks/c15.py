"""C15 Debug attributes are correct and do not otherwise change the outcome."""
import json
import os

import astgen as A
import common as C
import execpipe as X
import graphiso as G

PROP = "C15"
RULE = ("TLC enumerates all two-stanza programs over the MCExec statement pool and checks DebugNeutral / DebugComplete on both machines "
        "(a sample is replayed into the library); seeded random accepted files x corpus trees x {strict, lazy} x {no debug attributes, debug attributes with fresh names}, incl. "
        "programs creating the same edge from several statements, and the same files in pseudo-random layouts (blanks, line breaks, comments, multi-line string literals); paired runs: success must agree and removing the three attributes "
        "must give the graph of the plain run; the debug run is validated against the TLA+ machine (variable text, 1-based line and "
        "column of the variable, matched syntax node); an edge's location must be that of an edge statement of the file; "
        "non-trivial = at least one node or edge statement executed")

DBG = {"on": True, "loc": "dbg_loc", "var": "dbg_var", "mat": "dbg_mat"}
NAMES = ["dbg_loc", "dbg_var", "dbg_mat"]
MC = {}


def edge_stmt_locs(x, out):
    if isinstance(x, dict):
        if x.get("k") == "edge" and "loc" in x:
            out.add("line %d column %d" % (x["loc"][0] + 1, x["loc"][1] + 1))
        for v in x.values():
            edge_stmt_locs(v, out)
    elif isinstance(x, list):
        for v in x:
            edge_stmt_locs(v, out)


def multi_edge_files():
    q = "(identifier) @id "
    f1 = A.file([A.stanza("(module) @_m ", [A.node(A.var("a")), A.node(A.var("b")), A.edge(A.var("a"), A.var("b")),
                                            A.edge(A.var("a"), A.var("b")), A.attre(A.var("a"), A.var("b"), A.attr("w", A.integer(1))),
                                            A.edge(A.var("a"), A.var("b"))])])
    f2 = A.file([A.stanza("(module) @m ", [A.node(A.svar(A.cap("m"), "r"))]),
                 A.stanza(q, [A.node(A.var("n")), A.edge(A.var("n"), A.svar(A.cap("id"), "r")), A.edge(A.var("n"), A.svar(A.cap("id"), "r"))]),
                 A.stanza(q, [A.edge(A.svar(A.cap("id"), "r"), A.svar(A.cap("id"), "r")), A.attrn(A.svar(A.cap("id"), "r"), A.attr("k", A.integer(1)))])],
                inherit=["r"])
    # string literals spanning several lines before the statements whose location is recorded
    ml = dict(A.string("l1\nl2\n\n  l4"), raw=True)
    ml2 = dict(A.string("x\ny"), raw=True)
    f3 = A.file([A.stanza("(module) @m ", [A.let(A.var("s"), ml), A.node(A.var("a")), A.attrn(A.var("a"), A.attr("t", ml2)), A.node(A.svar(A.cap("m"), "r")),
                                           A.edge(A.var("a"), A.svar(A.cap("m"), "r"))]),
                 A.stanza(q, [A.node(A.var("n")), A.attrn(A.var("n"), A.attr("t", ml)), A.node(A.var("k")), A.edge(A.var("n"), A.var("k")),
                              A.edge(A.var("k"), A.svar(A.cap("id"), "r"))])],
                inherit=["r"])
    # two nodes linked in both directions (one statement each), and a top-level pattern that is itself quantified
    f4 = A.file([A.stanza("(module) @_m ", [A.node(A.var("a")), A.node(A.var("b")), A.edge(A.var("a"), A.var("b")), A.edge(A.var("b"), A.var("a")),
                                            A.node(A.var("c")), A.edge(A.var("c"), A.var("a")), A.edge(A.var("a"), A.var("c")), A.edge(A.var("c"), A.var("c"))])])
    f5 = A.file([A.stanza(q, [A.node(A.svar(A.cap("id"), "n"))]),
                 A.stanza(q, [A.node(A.var("k")), A.edge(A.svar(A.cap("id"), "n"), A.var("k")), A.edge(A.var("k"), A.svar(A.cap("id"), "n"))])])
    f6 = A.file([A.stanza("(expression_statement)+ @_es ", [A.node(A.var("n")), A.attrn(A.var("n"), A.attr("k", A.integer(1)))])])
    f7 = A.file([A.stanza("(module (expression_statement)+ @es) ", [A.node(A.var("n")), A.attrn(A.var("n"), A.attr("all", A.cap("es")))])])
    # non-ASCII strings and identifiers before the statements whose location is recorded (in the random layouts they often share a line)
    f8 = A.file([A.stanza("((identifier) @id (#not-eq? @id \"größe中\")) ", [A.let(A.var("größe"), A.string("é中ü")), A.node(A.var("a")), A.let(A.var("t"), A.string("中中中")), A.node(A.var("bé")),
                                                                          A.edge(A.var("a"), A.var("bé")), A.attrn(A.var("a"), A.attr("é", A.string("ß"))), A.node(A.svar(A.cap("id"), "nö")),
                                                                          A.edge(A.var("bé"), A.svar(A.cap("id"), "nö"))])])
    return [f1, f2, f3, f4, f5, f6, f7, f8]


def make_cases(tier):
    d = C.workdir("c15")
    raw = os.path.join(d, "gen.ndjson")
    n = 100 if tier == "quick" else 2500
    C.gen_cases(n, C.seed() * 1000 + 150, raw, "default")
    base = C.read_ndjson(raw)
    nsrc = A.n_sources()
    for i, f in enumerate(multi_edge_files()):
        for s in range(1, nsrc + 1):
            base += A.both_modes("c15h-%d-%d" % (i, s), f, s)
    # programs enumerated by TLC (MCExec: DebugNeutral and DebugComplete hold on the machines for every one of them), a sample replayed
    import mcexec
    progs, mstats, t = mcexec.run(tier, "c15_mcexec")
    MC["programs"] = len(progs)
    MC["distinct"] = mstats["distinct"]
    MC["states"] = mstats["states"]
    r = A.rng(15)
    sample = [p for p in progs if p["strict"] == "ok" or p["lazy"] == "ok"]
    r.shuffle(sample)
    base += mcexec.cases(sample[: (40 if tier == "quick" else 1500)], t, "c15e")
    cases = []
    for c in base:
        for tag, dbg in (("plain", A.DBG_OFF), ("dbg", DBG)):
            cc = json.loads(json.dumps(c))
            cc["id"] = "%s~%s" % (c["id"], tag)
            cc["dbg"] = dbg
            cases.append(cc)
    return cases


def strip_edge_loc(g):
    return {"n": g["n"], "nodes": [{"attrs": nd["attrs"], "out": [{"sink": e["sink"], "attrs": {k: v for k, v in e["attrs"].items() if k != "dbg_loc"}}
                                                                   for e in nd["out"]]} for nd in g["nodes"]]}


def run(tier):
    run = X.ExecRun(PROP, tier)
    V = run.V
    cases = make_cases(tier)
    run.add_cases("c15", cases)
    # the same files written with pseudo-random layouts (blanks, line breaks and comments wherever the syntax allows them, string
    # literals spanning lines): locations are those of the variable's first character in that text
    lay = []
    hand = [c for c in cases if c["id"].startswith("c15h-")]
    rest = [c for c in cases if not c["id"].startswith("c15h-")]
    for c in hand + rest[: (160 if tier == "quick" else 3000)]:
        if c["id"].endswith("~dbg"):
            cc = json.loads(json.dumps(c))
            cc["id"] = c["id"][:-4] + "~lay~dbg"
            lay.append(cc)
    run.add_cases("c15lay", lay, layout_seed=C.seed() * 31 + 15)
    by_id = {}
    stats = {"pairs": 0, "both_ok": 0, "both_err": 0, "debug_graphs_checked": 0, "edges_with_location": 0, "nodes_with_debug": 0}
    nontrivial = 0
    for case in run.cases:
        res = run.results.get(case["id"])
        o = case.get("outcome")
        by_id[case["id"]] = (case, res)
        if o is None or res is None:
            continue
        cl = X.tolerate_hash_order(case, res, X.classify(case, res))
        if cl.get("drift"):
            V.note_drift(case["id"], cl["drift"])
        if o["status"] in ("panic", "abort"):
            V.violation(case["id"], X.replay_payload(PROP, case, res, cl), cl.get("sig"))
            continue
        if cl["verdict"] == "unsupported":
            V.unsupported += 1
            continue
        if not case["id"].endswith("~dbg"):
            continue
        # correctness of the debug attributes: the debug run against the machine, modulo which creating statement an edge cites
        payload = X.replay_payload(PROP, case, res, cl)
        if res["status"] == "ok" and o["status"] == "ok":
            stats["debug_graphs_checked"] += 1
            ge = strip_edge_loc(G.from_spec(res["g"]))
            if G.isomorphic(ge, strip_edge_loc(o["graph"])) is False:
                payload["detail"] = "graph with debug attributes differs from the reference's (variable text / line and column / matched node)"
                payload["expected_graph"] = ge
                V.violation(case["id"] + "-attrs", payload, {"observed": "debug-attrs"})
            locs = set()
            edge_stmt_locs(case["prog"], locs)
            for i, nd in enumerate(o["graph"]["nodes"]):
                if "dbg_var" in nd["attrs"]:
                    stats["nodes_with_debug"] += 1
                for e in nd["out"]:
                    stats["edges_with_location"] += 1
                    got = e["attrs"].get("dbg_loc", {}).get("s")
                    if got not in locs:
                        payload["detail"] = "edge %d -> %d carries location %r, which is not the location of an edge statement (%s)" % (i, e["sink"], got, sorted(locs)[:6])
                        V.violation(case["id"] + "-edgeloc", payload, {"observed": "edge-loc"})
                        break
    # neutrality: paired runs
    for cid, (case, res) in sorted(by_id.items()):
        if not cid.endswith("~plain"):
            continue
        other = by_id.get(cid[:-6] + "~dbg")
        if not other:
            continue
        cd, rd = other
        op, od = case.get("outcome"), cd.get("outcome")
        if not op or not od or res is None or rd is None:
            continue
        if "unsupported" in (res["status"], rd["status"]) or op["status"] in ("panic", "abort") or od["status"] in ("panic", "abort"):
            continue
        stats["pairs"] += 1
        if any(e.get("e") in ("gnode", "edge") for e in case.get("events", [])):
            nontrivial += 1
        payload = {"property": PROP, "pair": cid[:-6], "dsl_text": case.get("text"), "source": case.get("src"), "mode": case.get("mode"),
                   "plain": op, "debug": od,
                   "cases": [{k: c[k] for k in c if k not in ("events", "retab", "matches", "lorder", "outcome")} for c in (case, cd)]}
        # on the model first
        if (res["status"] == "ok") != (rd["status"] == "ok") or (res["status"] == "ok" and
                G.isomorphic(G.from_spec(res["g"]), G.strip_attrs(G.from_spec(rd["g"]), NAMES)) is False):
            raise C.ToolError("model-level: debug attributes are not neutral in the machine for %s" % cid)
        if (op["status"] == "ok") != (od["status"] == "ok"):
            payload["detail"] = "without debug attributes: %s, with: %s %s" % (op["status"], od["status"], od.get("err", {}).get("kind", ""))
            V.violation(cid[:-6] + "-neutral", payload, {"observed": od["status"], "neutral": "status"})
        elif op["status"] == "ok":
            stats["both_ok"] += 1
            if G.isomorphic(op["graph"], G.strip_attrs(od["graph"], NAMES)) is False:
                payload["detail"] = "removing the debug attributes does not give the graph produced without them"
                V.violation(cid[:-6] + "-neutral", payload, {"observed": "ok", "neutral": "graph"})
        else:
            stats["both_err"] += 1
    run.states += MC.get("distinct", 0)
    run.trans += MC.get("states", 0)
    cov = run.coverage(RULE, {"debug": stats, "mcexec": {"programs_enumerated": MC.get("programs"), "invariants": ["DebugNeutral", "DebugComplete"]}})
    cov["distinct_nontrivial"] = nontrivial
    return V.finish("model_checking", cov, X.TRUSTED)


def replay(path):
    return X.replay_generic(PROP, path)
