"""C05 No input makes loading, execution or error rendering panic or hang."""
import json
import os
import re
import subprocess
import time

import astgen as A
import common as C
import execpipe as X

PROP = "C05"
RULE = ("(a) seeded random programs with 15% deliberately ill-typed sub-expressions, out-of-range and out-of-scan regex captures, "
        "undefined functions, mutable scoped variables, run in both modes with hooks and validated against the TLA+ machine (whose "
        "Bounded invariant is the termination argument); (b) token-level mutations (delete / duplicate / swap / substitute by a token "
        "of the DSL alphabet, at every position for small files) and byte-level mutations of spec-accepted texts plus hand-written "
        "hostile texts (huge numerals, unterminated strings and comments, stray delimiters, odd query shapes); every text is loaded, "
        "executed in both modes on trees with non-ASCII text and syntax errors, and every error is rendered plain and pretty, in a "
        "child process under a watchdog; relation: each step returns Ok or Err; non-trivial = the text differs from every other text")

# texts of known finding F16 (tree-sitter's query compiler does not return / allocates without bound): run as they are, not mutated
HOSTILE_FIXED = [
    "((identifier)? @c)+ @_x {\n  let u = @c\n}\n",
    "((identifier)?)+ @x {\n  let u = @x\n}\n",
    "(argument_list ((identifier) @arg ? @comma)+) {\n  let u1 = @arg\n  let u2 = @comma\n}\n",
]

# texts of repaired defects, run as they are on a fixed source: F15 (a predicate where a pattern is expected makes a capture that is
# declared present-once unbound in some matches; reading it panicked), F2 (`$n` outside any scan arm / beyond the groups, lazy mode)
REGRESSION_TEXTS = [
    # F15 as found (C05 thorough, text t28787, on the non-ASCII source)
    ("(assignment left: (_) @l right: (_)? @r) @a {\n  attr ((node)) kind = (source-text @a)\n  node @l.sn\n  node @l.sm\n  let u1 = @r\n}\n"
     "(assignment left: (_) @l right: (_)? @r) @a {\n  edge (node) -> [4294967295, (named-child-index @a), (start-row [ (node) for c2 in [@l] ])]\n  let u3 = @r\n}\n"
     "(assignment left: (_) @l right: (#null)? @r) @a {\n  let @a.sm = [\"\", (join [ \"a\" for c4 in [(node)] ] \"/\")]\n  node n5\n  scan (node-type @l) {\n"
     "    \"b$\" {\n      node g7\n      attr (g7) g0 = $0\n      let @a.sv = #false\n      edge n5 -> n5\n      let v6 = @r\n    }\n  }\n}\n", 10),
    ("(assignment left: (_) @l right: (#null)? @r) @a {\n  let u1 = @l\n  let u2 = @r\n  let u3 = @a\n}\n", 2),
    # known finding F18 (found by the thorough tier, text t19959): lazy execution allocates without bound inside tree-sitter's query cursor
    ("(assignment left: (identifier) @l right: (#null)+ @r) {\n  let v1 = @r\n  let v2 = @l\n}\n"
     "(assignment left: (identifier) @l right: (_)+ @r) {\n  let u4 = @l\n  let u5 = @r\n}\n", 19),
    ("(module) @_m {\n  print $1\n}\n", 2),
    ("(module) @_m {\n  scan \"ab\" {\n    \"(a)\" {\n      print $2\n    }\n  }\n}\n", 2),
]

HOSTILE = [
    "(module) @m { let x = 99999999999 }",
    "(module) @m { let x = 4294967296 }",
    "(module) @m { let x = 4294967295 }",
    "(module) @_m { scan \"a\" { \"a\" { print $99999999999999999999999 } } }",
    "(module) @_m { print $0 }",
    "(module) @_m { print \"unterminated }",
    "(module) @_m { print \"x\" ; comment without end",
    "(module) @_m { } ; é中文",
    "(module) @_m { node n } ; ééééééééééééééééé",
    "; 中中中中中中中中中中\n(module) @_m { } ; 中中中",
    "(module) @_m { print 1 ; €€€€\n}",
    "(module) @_m { print 1 } ;€",
    "(module) @_m { node n\n attr (n) a = \"\\",
    "(module) @_m {{{{ }",
    ")))) (module) @_m { }",
    "(module) @_m { let x = [1, 2,, 3] }",
    "(module) @_m { let x = (plus 1 }",
    "(module) @_m { attr (#null) }",
    "(module) @_m { edge -> }",
    "global",
    "global x",
    "global filename",
    "global x?",
    "global x*",
    "global x = \"d\"",
    "global x =",
    "inherit .x",
    "attribute a = b =>",
    "(module) @_m { }\nglobal late",
    "((escape_sequence) @s\n (#eq? @s \"\\\\\")) ; a lone \\ (not \" or {)\n{ node n\n let u = @s }",
    "((string) @s (#match? @s \"^\\\\\")) ; \" {\n{ let u = @s }",
    "(string) @s ; \"unbalanced { quote\n{ let u = @s }",
    "(string) @s ; \\\" {\n{ let u = @s }",
    "((identifier) @i (#eq? @i \"a\\\"b\")) ; } \" {\n{ let u = @i }",
    "(module) @m { let @m.x = @m.y\n let @m.y = @m.x }",
    "(module) @m { let @m.x = [@m.x] }",
    "(module) @m { let @m.x = (plus 1 @m.y)\n let @m.y = (plus @m.x 1)\n node n\n attr (n) v = @m.x }",
    "(module) @m { let a = @m.c\n let @m.c = { a } }",
    "[(module) {\n",
    "[(module) (identifier)\n{ node n }\n",
    "(module) @m {\r\n  node @\r\n}\r\n",
    "(module) @m {\r\n  let x = #\r\n}\r\n",
    "inherit .\r\n(module) @_m { }\r\n",
    "(module) @_m {\r\n  attr (n) a = 1\r\n}\r\n",
    "(module) @_m { print (format \"é{}\" \"foo\"), (format \"«{}» → {{{}}}\" 1 2), (format \"日{x}\" 1) }",
    "(module) @_m { node n\n attr (n) a = (format \"中中{}中{{}}\" #null), b = (replace \"ééé\" \"é\" \"中\"), c = (join [\"é\", \"\"] \"ü\") }",
    "global x y z",
    "global x* = \"d\"\n(module) @_m { for y in x { print y } }",
    "inherit",
    "inherit .",
    "attribute",
    "attribute a = b",
    "attribute a = b => c = @cap\n(module) @_m { node n\n attr (n) a = 1 }",
    "attribute a = b => a = b\n(module) @_m { node n\n attr (n) a = 1 }",
    "attribute a = b => c = { @_m for y in b }\n(module) @_m { node n\n attr (n) a = [1, 2] }",
    "attribute a = b => c = [ @_m for y in b ]\n(module) @_m { node n\n attr (n) a = [1, 2] }",
    "attribute a = b => c = [ y for y in @_m ]\n(module) @_m { node n\n attr (n) a = [1, 2] }",
    "attribute a = b => c = @_m.x, d = (f [@_m])\n(module) @_m { node n\n attr (n) a = [1, 2] }",
    "attribute a = b => c = (d b)\n(module) @_m { node n\n attr (n) a = 1 }",
    "(module) @a @b @c { node n }",
    "(module) @a @b @c @d { print @a, @b, @c, @d }",
    "(identifier)+ @ids { print @ids }",
    "(module (_)* @xs) @xs { print @xs }",
    "[(module) (identifier)]* @m { print @m }",
    "(module) @_m { if some #null { } }",
    "(module) @_m { if something { } }",
    "(module) @_m { for x in #null { } }",
    "(module) @_m { scan \"aaa\" { \"\\\\b\" { } } }",
    "(module) @_m { scan \"aaa\" { \"(\" { } } }",
    "(module) @_m { scan \"é中é\" { \"é\" { node n\n attr (n) v = $0 } } }",
    "(module) @_m { let x = (replace \"aaa\" \"(\" \"b\") }",
    "(module) @_m { let x = (replace \"aaa\" \"a\" \"$9${x\") }",
    "(module) @_m { let x = (format \"{\" 1) }",
    "(module) @_m { let x = (format \"{}{}{}\" 1) }",
    "(module) @m { let @m.a.b.c.d = 1 }",
    "(module) @m { let @m.a = @m.a }",
    "(module) @m { node n\n attr (n) self = n\n attr (n) self = n }",
    "(module) @m { node @m.x }\n(module) @m { node @m.x }",
    "(module) @m { var x = 1\n set x = (plus x x)\n set x = (plus x x) }",
    "(module) @m { let x = [ y for y in [ z for z in [1,2] ] ] }",
    "(module) @m { let x = " + "[" * 60 + "1" + "]" * 60 + " }",
    "(module) @m { let x = " + "(not " * 60 + "#true" + ")" * 60 + " }",
    "(module) @m " + "{ if #true " * 30 + "{ }" + " }" * 30,
    "﻿(module) @m { }",
    "(module) @m { print \"\\0\\n\\t\\r\\q\" }",
    "(module) @m\n{\n  node\tn\r\n  attr (n) é = 1\n}",
    "(module) @é { print @é }",
    "(ERROR) @e { print @e, (source-text @e) }",
    "(MISSING) @e { print @e }",
    "((identifier) @id (#eq? @id)) { print @id }",
    "((identifier) @id (#match? @id \"(\")) { print @id }",
    "(no_such_node) @x { }",
    "(module field: (x)) @x { }",
    "\"module\" @x { print @x }",
    "_ @x { print (named-child-index @x) }",
]

ALPHABET = ["let", "var", "set", "node", "edge", "attr", "print", "scan", "if", "elif", "else", "for", "in", "some", "none", "global", "inherit",
            "attribute", "{", "}", "(", ")", "[", "]", ",", ".", "->", "=>", "=", "@", "$", "#", "\"", ";", "#true", "#null", "@x", "$1",
            "4294967296", "0", "\"s\"", "x", "é", "*", "+", "?", "\n", "\\"]

TOKEN_RE = re.compile(r'\s+|[A-Za-z_][\w-]*|\d+|"(?:\\.|[^"\\])*"|.', re.S)


def mutations(text, r, exhaustive):
    toks = TOKEN_RE.findall(text)
    idx = [i for i, t in enumerate(toks) if not t.isspace()]
    out = []
    positions = idx if exhaustive else [r.choice(idx) for _ in range(min(len(idx), 10))] if idx else []
    for i in positions:
        for op in ("del", "dup", "swap", "sub"):
            t = list(toks)
            if op == "del":
                t[i] = ""
            elif op == "dup":
                t[i] = t[i] + " " + t[i]
            elif op == "swap":
                j = next((k for k in idx if k > i), None)
                if j is None:
                    continue
                t[i], t[j] = t[j], t[i]
            else:
                t[i] = r.choice(ALPHABET)
            out.append("".join(t))
    # byte/character level
    chars = list(text)
    for _ in range(4 if not exhaustive else 12):
        if not chars:
            break
        c = list(chars)
        k = r.randrange(len(c))
        op = r.randrange(3)
        ch = r.choice(['"', "{", "}", "(", ")", ";", "\\", "\0", "é", "中", "9", "@", "$", "\n", " "])
        if op == 0:
            del c[k]
        elif op == 1:
            c.insert(k, ch)
        else:
            c[k] = ch
        out.append("".join(c))
    return out


def run_fuzz(d, items, per_case_s=5.0):
    """runs the load+run+render relation over items in child processes; returns (results by id, crashes)"""
    results, crashes = {}, []
    remaining = list(items)
    rounds = 0
    while remaining:
        rounds += 1
        cin, cout = os.path.join(d, "fuzz_in.ndjson"), os.path.join(d, "fuzz_out.ndjson")
        C.write_ndjson(cin, remaining)
        if os.path.exists(cout):
            os.remove(cout)
        # the child prints "START <id>" before each text: it is stopped when one text takes longer than `stall_s` (a hang) and it runs
        # under an address-space limit (runaway allocation ends in an abort of the child, not in the kernel killing something)
        stall_s = 10.0
        how = "ok"
        stdout_lines = []
        import resource
        import threading

        def limit():
            resource.setrlimit(resource.RLIMIT_AS, (4 * 1024 ** 3, 4 * 1024 ** 3))
        with open(os.devnull, "w") as devnull:
            proc = subprocess.Popen([C.TSGV, "fuzz", C.CORPUS_PY, cin, cout], stdout=subprocess.PIPE, stderr=devnull, text=True, preexec_fn=limit)
        last = [time.time()]
        stalled = [False]

        def watchdog():
            while proc.poll() is None:
                if time.time() - last[0] > stall_s:
                    stalled[0] = True
                    proc.kill()
                    return
                time.sleep(1.0)
        th = threading.Thread(target=watchdog, daemon=True)
        th.start()
        for line in proc.stdout:
            last[0] = time.time()
            stdout_lines.append(line.rstrip("\n"))
        rc = proc.wait()
        stdout = "\n".join(stdout_lines)
        if stalled[0]:
            how = "hang(> %ds on one text)" % int(stall_s)
        elif rc != 0:
            C.killed_from_outside(rc)
            how = "abort(status %d)" % rc
        if os.path.exists(cout):
            for row in C.read_ndjson(cout):
                results[row["id"]] = row["r"]
        if how == "ok":
            break
        started = [l[6:] for l in stdout.splitlines() if l.startswith("START ")]
        culprit = started[-1] if started else remaining[0]["id"]
        if culprit in results:          # died after finishing it: blame the next one
            pos = next(i for i, it in enumerate(remaining) if it["id"] == culprit) + 1
            if pos >= len(remaining):
                break
            culprit = remaining[pos]["id"]
        crashes.append((culprit, how))
        pos = next(i for i, it in enumerate(remaining) if it["id"] == culprit)
        remaining = remaining[pos + 1:]
        if rounds > 200:
            raise C.ToolError("too many crashing inputs")
    return results, crashes


def features(text):
    f = []
    if re.search(r"attribute[^\n]*=>[^\n]*@", text):
        f.append("capture-in-shorthand")
    m = re.search(r"attribute\s+([\w-]+)\s*=\s*[\w-]+\s*=>(.*)", text)
    if m and re.search(r"(^|[\s,])" + re.escape(m.group(1)) + r"\s*(=|,|$)", m.group(2)):
        f.append("recursive-shorthand")
    if re.search(r"\)\s*(@[\w-]+\s*){3,}", text):
        f.append("three-or-more-root-captures")
    if re.search(r"[\)\]][*+?]\s*@", text):
        f.append("quantified-root-pattern")
    # the pattern of a stanza (text up to its `{`) is one parenthesised group that is itself quantified and contains an optional part
    for m in re.finditer(r"(^|\n)\s*(\((?:[^{}\n]|\n(?!\s*\{))*\))\s*([?*+]+)\s*(@[\w-]+\s*)*\{", text):
        if re.search(r"[?*]", m.group(2)) or len(m.group(3)) > 1:
            f.append("nullable-repeated-root")
            break
    if re.search(r"@[\w-]+\s*[?*+](\s|\))", text):
        f.append("quantifier-after-capture")
    # (the same class: a quantifier that follows another quantifier or a blank inside the pattern of a stanza)
    for m in re.finditer(r"(^|\n)([^{}\n;]*(?:\n(?!\s*\{)[^{}\n;]*)*)\{", text):
        pat = re.sub(r'"(?:\\.|[^"\\])*"', '""', m.group(2))
        if re.search(r"[?*+]\s*[?*+]|[\s(][?*+]", pat):
            f.append("quantifier-after-capture")
            break
    # a predicate where a pattern is expected (tree-sitter accepts it), repeated
    if re.search(r"\(#[^()\n]*\)\s*[+*]", text):
        f.append("repeated-predicate-pattern")
    return ",".join(f)


def run(tier):
    run = X.ExecRun(PROP, tier)
    V = run.V
    d = C.workdir("c05")
    # (a) ill-typed programs, hooks on, validated against the machine
    raw = os.path.join(d, "noisy.ndjson")
    n = 120 if tier == "quick" else 2500
    C.gen_cases(n, C.seed() * 1000 + 50, raw, "noisy")
    run.add_batch("c05_noisy", raw, run_timeout=120)
    # shaped scoped-variable programs (inheritance chains with unrelated variables on intermediate nodes, computed scopes)
    import checks.c04 as c04
    run.add_cases("c05_scoped", c04.shaped_cases(tier, "c05c"), run_timeout=60 if tier == "quick" else 600)
    for case, res, cl in run.classify_all(panic_only=True):
        pass
    # (b) texts
    r = A.rng(5)
    base_texts = [(c["text"], c["src"]) for c in run.cases if "text" in c][: (40 if tier == "quick" else 400)]
    nsrc = A.n_sources()
    texts = []
    for t in HOSTILE:
        texts.append((t, r.choice([2, 10, 12, 13, 18])))
        for m in mutations(t, r, len(t) < 60 and tier == "thorough"):
            texts.append((m, r.choice([2, 10, 12, 13, 18])))
    for t in HOSTILE_FIXED:
        texts.append((t, 14))
    texts += REGRESSION_TEXTS
    # with F15's query tree-sitter's own matches differ between identical runs (about two runs in three leave the capture unbound):
    # the text runs sixteen times, told apart by a closing comment
    for k in range(8):
        for s in (2, 10):
            texts.append((REGRESSION_TEXTS[0][0] + "; %d %d\n" % (k, s), s))
    for t, s in base_texts:
        for m in mutations(t, r, tier == "thorough" and len(t) < 300):
            texts.append((m, s))
    seen, items = set(), []
    for t, s in texts:
        if t in seen or "\ud800" <= max(t or " ") <= "\udfff":
            continue
        seen.add(t)
        items.append({"id": "t%d" % len(items), "text": t, "src": s})
    results, crashes = run_fuzz(d, items)
    by_id = {it["id"]: it for it in items}
    stats = {"texts": len(items), "load_ok": 0, "load_err": 0, "strict_ok": 0, "strict_err": 0, "lazy_ok": 0, "lazy_err": 0, "process_crashes": len(crashes)}
    for cid, how in crashes:
        it = by_id[cid]
        V.violation(cid, {"property": PROP, "detail": "the process running load/execute/render " + how, "dsl_text": it["text"], "source": it["src"]},
                    {"observed": "abort" if "abort" in how else "hang", "feature": features(it["text"]), "msg": how})
    for cid, rr in results.items():
        it = by_id[cid]
        problems = []
        if rr["load"] == "panic":
            problems.append(("load", rr.get("msg", "")))
        elif rr["load"] == "err":
            stats["load_err"] += 1
            if not rr["display"] or not rr["pretty"]:
                problems.append(("render-load-error", rr.get("render_panic", "")))
        else:
            stats["load_ok"] += 1
            for mode in ("strict", "lazy"):
                m = rr[mode]
                if m["status"] == "panic":
                    problems.append((mode, m.get("msg", "")))
                elif m["status"] == "err":
                    stats[mode + "_err"] += 1
                    if not m["display"] or not m["pretty"]:
                        problems.append(("render-%s-error" % mode, m.get("render_panic", "")))
                else:
                    stats[mode + "_ok"] += 1
                    if not m.get("output_ok", True):
                        problems.append(("output-" + mode, ""))
        for where, msg in problems:
            V.violation("%s-%s" % (cid, where), {"property": PROP, "detail": "%s panicked: %s" % (where, msg), "dsl_text": it["text"], "source": it["src"], "result": rr},
                        {"observed": "panic", "where": where, "msg": msg, "feature": features(it["text"]),
                         "root_missing": rr.get("root_missing", False)})
    cov = run.coverage(RULE, {"texts": stats})
    cov["evaluations"] = len(run.cases) + len(items)
    cov["distinct_nontrivial"] = cov["distinct_nontrivial"] + len(items)
    return V.finish("exploration", cov, X.TRUSTED + [
        "byte-level mutation is not model-derived: the specification supplies the seed texts and the (trivial) relation only",
        "bracket nesting depth of every input <= 64"])


def replay(path):
    with open(path, encoding="utf-8") as f:
        rp = json.load(f)
    if "dsl_text" not in rp or "case" in rp:
        return X.replay_generic(PROP, path)
    C.ensure_built()
    d = C.workdir("c05_replay")
    results, crashes = run_fuzz(d, [{"id": "r", "text": rp["dsl_text"], "src": rp.get("source", 1)}])
    print(json.dumps(results.get("r")), crashes)
    bad = bool(crashes) or "panic" in json.dumps(results.get("r", {}))
    if bad:
        print("VIOLATION property=%s replay=%s" % (PROP, path))
        return 1
    return 0
