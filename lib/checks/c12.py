"""C12 Results are deterministic and a loaded file is reusable without cross-talk."""
import json
import os
import subprocess

import astgen as A
import common as C
import execpipe as X

PROP = "C12"
RULE = ("seeded random files (valid, and single-fault files rejected by the loader) x corpus trees: one loaded file executed repeatedly, "
        "interleaved over 2-3 trees and from 4 concurrent threads, every result (graph incl. numbering, pretty text, error text, load "
        "diagnostic incl. its pretty form) compared with an isolated run on a fresh load; the whole transcript repeated in 3 OS "
        "processes (fresh hash seeds; one of them runs the sessions in the opposite order) and compared per session; on the model TLC explores every interleaving of two executions of "
        "one file (MCSession: Isolation, NoCrossTalk); non-trivial = at least one stanza matched in some run")


def faulty_texts(r):
    """texts the loader rejects, whose diagnostic could depend on iteration order"""
    return [
        "(function_definition name: (identifier) @name parameters: (parameters (identifier)* @params)) @fn { node n }",
        "(assignment left: (_) @l right: (_)? @r) @a { }",
        "(call function: (_) @f arguments: (argument_list (_)* @args)) @c { print 1 }",
        "(module) @m { let x = y }",
        "(module) @m { let x = 1\n let x = 2 }",
        "global g\n(module) @m { let g = 1 }",
        "(module) @m { scan \"a\" { \"a*\" { } } }",
        "(module) @m { for x in 1 { } }",
        "(if_statement condition: (_) @c alternative: (_)* @alts) @if { }",
        "(binary_operator left: (identifier) @l right: (_) @r) @op { node n\n node n }",
    ]


def two_failing_names():
    # several scoped names that all fail when the scoped store is forced (duplicate definitions on one node):
    # which one is reported must not depend on hash order
    defs = [A.let(A.svar(A.cap("id"), nm), A.integer(i)) for i, nm in enumerate(["alpha", "beta", "gamma", "delta", "eps"])]
    return A.file([A.stanza("(identifier) @id ", defs), A.stanza("(identifier) @id ", defs)])


def order_sensitive_files():
    """programs whose result would change with the iteration order of an unordered container: set comprehensions whose elements
    allocate graph nodes or fail (the element order is the order of the source LIST), several conflicting attributes"""
    v, c, i, s = A.var, A.cap, A.integer, A.string
    xs = "(module (_)* @xs) @m "
    xs_ = "(module (_)* @xs) @_m "
    files = [
        A.file([A.stanza(xs, [A.node(A.svar(c("m"), "n")), A.attrn(A.svar(c("m"), "n"), A.attr("s", A.setc(A.lst(A.call("node"), A.call("source-text", v("x"))), "x", c("xs"))))])]),
        A.file([A.stanza(xs_, [A.node(v("n")), A.attrn(v("n"), A.attr("s", A.setc(A.call("plus", i(1), A.call("source-text", v("x"))), "x", c("xs"))))])]),
        A.file([A.stanza(xs_, [A.let(v("l"), A.setc(A.lst(A.call("node"), A.call("node-type", v("x")), A.call("start-row", v("x"))), "x", c("xs"))), A.node(v("n")),
                              A.forin("e", A.listc(v("y"), "y", c("xs")), [A.node(v("k")), A.attrn(v("k"), A.attr("of", A.call("source-text", v("e"))))]),
                              A.attrn(v("n"), A.attr("l", v("l")))])]),
        A.file([A.stanza("(identifier) @id ", [A.let(A.svar(c("id"), "d"), A.call("node"))]),
                A.stanza("(module (expression_statement (_) @es)* ) @_m ", [A.node(v("n")), A.attrn(v("n"), A.attr("s", A.setc(A.call("not", A.call("source-text", v("x"))), "x", c("es"))))])]),
    ]
    return files


def debug_conflict_file():
    # with debug attributes on, the statement conflicts with an attribute that no statement of this run has set
    return A.file([A.stanza("(identifier) @_id ", [A.node(A.var("n")), A.attrn(A.var("n"), A.attr("first", A.integer(1))), A.attrn(A.var("n"), A.attr("dbg_var", A.string("clash")))])])


def run(tier):
    V = C.Verdicts(PROP, tier)
    d = C.workdir("c12")
    C.ensure_built()
    r = A.rng(12)
    nsrc = A.n_sources()
    # programs: random ones (through the standard pipeline so that they are also validated), rendered texts reused
    raw = os.path.join(d, "gen.ndjson")
    n = 40 if tier == "quick" else 600
    C.gen_cases(n, C.seed() * 1000 + 120, raw, "default")
    run = X.ExecRun(PROP, tier)
    run.V = V
    extra = []
    for s in (2, 8, 14):
        extra += A.both_modes("c12h-%d" % s, two_failing_names(), s)
    for j, f in enumerate(order_sensitive_files()):
        for sidx in (2, 5, 7, 17):
            extra += A.both_modes("c12o-%d-%d" % (j, sidx), f, sidx)
    for sidx in (2, 7):
        for cse in A.both_modes("c12d-%d" % sidx, debug_conflict_file(), sidx, dbg=A.DBG_ON):
            cse["session_dbg"] = True
            extra.append(cse)
    gen = C.read_ndjson(raw)
    run.add_cases("c12_base", gen + extra)
    run.classify_all(panic_only=True)
    sessions = []
    for c in run.cases:
        if "text" not in c or c.get("outcome", {}).get("status") in (None, "load_err"):
            continue
        trees = [c["src"]] + [r.randint(1, nsrc) for _ in range(r.randint(1, 2))]
        sessions.append({"id": c["id"], "text": c["text"], "mode": c["mode"], "srcs": trees, "globals": c.get("globals", {}),
                         "dbg": bool(c.get("session_dbg")) or bool(c.get("dbg", {}).get("on"))})
    for i, t in enumerate(faulty_texts(r)):
        sessions.append({"id": "c12f-%d" % i, "text": t, "mode": "strict", "srcs": [2], "globals": {}})
    # several required globals missing at once (which one is reported must not vary), with and without some supplied
    for i, (decl, glob) in enumerate([("global A\nglobal B\nglobal C\n", {}), ("global zeta\nglobal alpha\nglobal mid\nglobal beta\n", {"mid": A.vstr("m")}),
                                      ("global L*\nglobal R+\nglobal S\n", {}), ("global A\nglobal B = \"d\"\nglobal C\nglobal D\n", {"A": A.vstr("a")})]):
        for mode in ("strict", "lazy"):
            sessions.append({"id": "c12g-%d-%s" % (i, mode), "text": decl + "(module) @_m { node n }\n", "mode": mode, "srcs": [2, 5], "globals": glob, "dbg": False})
    # several nodes each carrying a duplicate definition: which one the error names must not depend on where the nodes happen to lie
    dtext = "(identifier) @x {\n  let @x.v = 1\n  let @x.v = 2\n}\n"
    for i, srcs_ in enumerate([[2, 7], [3, 9], [17, 20]]):
        for mode in ("strict", "lazy"):
            sessions.append({"id": "c12dd-%d-%s" % (i, mode), "text": dtext, "mode": mode, "srcs": srcs_, "globals": {}, "dbg": False})
    # attribute names that differ in case only, syntax nodes rendered as text (format, join, error messages): no text may depend on
    # hash order or on where a node lies in memory
    ctext = ("(identifier) @id {\n  node n\n  attr (n) name = 1, Name = 2, NAME = 3, nAME = (source-text @id)\n  edge n -> n\n  attr (n -> n) w = 1, W = 2\n"
             "  attr (n) shown = (format \"{} {}\" @id [@id]), joined = (join [@id, @id] \"+\")\n}\n")
    etext = "(identifier) @id {\n  node n\n  edge n -> @id\n}\n"
    utext = "(identifier) @id {\n  node n\n  attr (n) v = @id.missing\n}\n"
    for i, (txt, srcs_) in enumerate([(ctext, [2, 7]), (ctext, [9, 17]), (etext, [2, 3]), (utext, [2, 8])]):
        for mode in ("strict", "lazy"):
            sessions.append({"id": "c12c-%d-%s" % (i, mode), "text": txt, "mode": mode, "srcs": srcs_, "globals": {}, "dbg": False})
    # a function that fails on its argument (an invalid regular expression supplied as a global), before and after runs in which
    # the same function succeeds: every repetition fails the same way
    rtext = "global PAT\n(module) @_m {\n  node n\n  attr (n) r = (replace \"abcabc\" PAT \"x\")\n}\n"
    for i, pat in enumerate(["b", "(", "c", "[a", "(", "a+"]):
        for mode in ("strict", "lazy"):
            sessions.append({"id": "c12r-%d-%s" % (i, mode), "text": rtext, "mode": mode, "srcs": [2, 2, 5], "globals": {"PAT": A.vstr(pat)}, "dbg": False})
    # files that differ only in names, executed one after the other in the same thread with debug attributes
    for i, nm in enumerate(["n", "k", "other", "n"]):
        sessions.append({"id": "c12t-%d" % i, "text": "(identifier) @_id {\n  node %s\n  attr (%s) v = 1\n}\n" % (nm, nm), "mode": "strict" if i % 2 else "lazy",
                         "srcs": [2, 7], "globals": {}, "dbg": True})
    sin = os.path.join(d, "sessions.ndjson")
    C.write_ndjson(sin, sessions)
    # the second process runs the sessions in the opposite order: state that leaks from one file's executions into another's
    # shows up as a difference between the processes
    sin_rev = os.path.join(d, "sessions.rev.ndjson")
    C.write_ndjson(sin_rev, list(reversed(sessions)))
    outs = []
    nproc = 3
    for k in range(nproc):
        sout = os.path.join(d, "sessions.out%d.ndjson" % k)
        with open(os.devnull, "w") as devnull:
            p = subprocess.run([C.TSGV, "session", C.CORPUS_PY, sin_rev if k == 1 else sin, sout], stdout=subprocess.PIPE, stderr=devnull, text=True, timeout=3000)
        C.killed_from_outside(p.returncode)
        if p.returncode != 0:
            V.violation("session-process-%d" % k, {"property": PROP, "detail": "the session process died with status %d" % p.returncode}, {"observed": "abort"})
            return V.finish("model_checking", {"states": 1, "transitions": 1, "traces_validated_against_impl": 0, "samples": sessions[:1]}, [])
        outs.append({x["id"]: x for x in C.read_ndjson(sout)})
    stats = {"sessions": len(sessions), "processes": nproc, "in_process_comparisons": 0, "rejected_files": 0}
    nontrivial = 0
    for s in sessions:
        rs = [o[s["id"]]["r"] for o in outs]
        payload = {"property": PROP, "dsl_text": s["text"], "mode": s["mode"], "sources": s["srcs"], "globals": s["globals"]}
        if "skip" in rs[0]:
            continue
        if rs[0]["load"] != "OK":
            stats["rejected_files"] += 1
        else:
            stats["in_process_comparisons"] += 13 * len(s["srcs"])
            if any(x.startswith("OK") and '"n":0' not in x[:40] for x in rs[0].get("isolated", [])):
                nontrivial += 1
        for k, rr in enumerate(rs):
            for mm in rr.get("mismatches", []):
                payload = dict(payload, detail="process %d: %s" % (k, mm["what"]), a=mm.get("a"), b=mm.get("b"))
                V.violation(s["id"] + "-inproc", payload, {"observed": "nondeterministic", "what": mm["what"], "a": mm.get("a", ""), "b": mm.get("b", "")})
                break
        base = json.dumps({k: v for k, v in rs[0].items() if k != "mismatches"}, sort_keys=True)
        for k in range(1, nproc):
            other = json.dumps({kk: v for kk, v in rs[k].items() if kk != "mismatches"}, sort_keys=True)
            if other != base:
                payload = dict(payload, detail="results differ between OS processes (fresh hash seeds)", a=rs[0], b=rs[k])
                V.violation(s["id"] + "-xproc", payload, {"observed": "nondeterministic", "what": "across processes",
                                                          "a": json.dumps(rs[0])[:2000], "b": json.dumps(rs[k])[:2000]})
                break
    # design-level: interleavings of two executions of one file
    mc_cases = os.path.join(d, "mc_cases.ndjson")
    small = [c for c in run.cases if len(c.get("events") or []) <= (40 if tier == "quick" else 90) and "outcome" in c and "skip" not in c][: (24 if tier == "quick" else 120)]
    # the same file on a second tree: reuse the prepared case with another source
    twins = []
    for c in small[: len(small) // 2]:
        t = {k: c[k] for k in ("mode", "dbg", "prog", "globals", "cancel_at")}
        t = json.loads(json.dumps(t))
        t["id"] = c["id"] + "~twin"
        t["src"] = (c["src"] % nsrc) + 1
        twins.append(t)
    run2 = X.ExecRun(PROP, tier)
    run2.V = V
    if twins:
        run2.add_cases("c12_twins", twins)
    C.write_ndjson(mc_cases, small + [c for c in run2.cases if "outcome" in c])
    recs, mstats, text = C.tlc("MCSession", "MCSession.cfg", {"CASES": mc_cases, "TREES": C.sources_json()}, "c12_mc", timeout=3000)
    if not C.tlc_ok(mstats):
        raise C.ToolError("MCSession failed: %s" % mstats["errors"][:3])
    cov = run.coverage(RULE, {"sessions": stats, "mc_session": {"distinct_states": mstats["distinct"], "states": mstats["states"], "depth": mstats["depth"]}})
    cov["states"] += mstats["distinct"] + run2.states
    cov["transitions"] += mstats["states"] + run2.trans
    cov["distinct_nontrivial"] = nontrivial
    cov["evaluations"] = len(sessions) * nproc
    return V.finish("model_checking", cov, X.TRUSTED + [
        "absence of data races / undefined behaviour is not decided (the harness only observes results)",
        "caller-supplied variable sets are not Sync: threads share the file, each thread builds equal globals"])


def replay(path):
    with open(path, encoding="utf-8") as f:
        rp = json.load(f)
    C.ensure_built()
    d = C.workdir("c12_replay")
    s = {"id": "r", "text": rp["dsl_text"], "mode": rp.get("mode", "strict"), "srcs": rp.get("sources", [2]), "globals": rp.get("globals", {})}
    sin = os.path.join(d, "s.ndjson")
    C.write_ndjson(sin, [s])
    outs = []
    for k in range(4):
        sout = os.path.join(d, "s.out%d.ndjson" % k)
        C.sh([C.TSGV, "session", C.CORPUS_PY, sin, sout], timeout=300)
        outs.append(C.read_ndjson(sout)[0]["r"])
    bad = any(o.get("mismatches") for o in outs) or any(json.dumps({k: v for k, v in o.items() if k != "mismatches"}, sort_keys=True) !=
                                                         json.dumps({k: v for k, v in outs[0].items() if k != "mismatches"}, sort_keys=True) for o in outs)
    if bad:
        print("VIOLATION property=%s replay=%s" % (PROP, path))
        return 1
    return 0
