"""C09 Edges are a set, attributes are single-assignment, execute_into only adds."""
import json
import os

import astgen as A
import common as C
import execpipe as X
import graphiso as G

PROP = "C09"
RULE = ("seeded histories of 1-3 successive execute_into calls on one graph (either mode per run, debug attributes on or off, different "
        "files), programs that create and annotate the same nodes/edges from several statements, stanzas and matches, with graph "
        "nodes of earlier runs passed back as globals (re-created edges, equal and conflicting re-assignments); each run validated "
        "against the TLA+ machine started from the previous graph; non-trivial = at least one edge or attribute statement executed")


def body(r, nodes, first):
    """statements over node expressions `nodes` (variables / globals evaluating to graph nodes)"""
    stmts = []
    names = list(nodes)
    if first or not names or r.random() < 0.7:
        for v in ("a", "b", "c")[: r.randint(1, 3)]:
            stmts.append(A.node(A.var(v)))
            names.append(v)
    edges = []
    given = {}
    for _ in range(r.randint(2, 7)):
        k = r.randrange(20)
        x, y = r.choice(names), r.choice(names)
        if k <= 7:
            stmts.append(A.edge(A.var(x), A.var(y)))
            edges.append((x, y))
        elif k <= 13:
            an = r.choice(["k", "l", "m"])
            val = r.choice([A.integer(1), A.integer(2), A.string("x"), A.true(), A.var(y), A.lst(A.integer(1), A.var(x))])
            if (x, an) in given and r.random() < 0.8:
                val = given[(x, an)]          # equal re-assignment (accepted)
            given[(x, an)] = val
            stmts.append(A.attrn(A.var(x), A.attr(an, val)))
        elif edges:
            x, y = r.choice(edges)
            an = r.choice(["w", "u"])
            val = r.choice([A.integer(1), A.integer(2), A.string("w")])
            if (x, y, an) in given and r.random() < 0.8:
                val = given[(x, y, an)]
            given[(x, y, an)] = val
            stmts.append(A.attre(A.var(x), A.var(y), A.attr(an, val)))
        elif k == 19:
            stmts.append(A.attre(A.var(x), A.var(y), A.attr("w", A.integer(1))))
    if r.random() < 0.25:
        # one statement naming an attribute twice (equal: accepted; different: a conflict), directly and through a shorthand
        x = r.choice(names)
        v1 = r.choice([A.integer(1), A.string("x")])
        v2 = v1 if r.random() < 0.5 else r.choice([A.integer(2), A.string("y")])
        kind = r.randrange(3)
        if kind == 0:
            stmts.append(A.attrn(A.var(x), A.attr("dd", v1), A.attr("dd", v2)))
        elif kind == 1:
            stmts.append(A.attrn(A.var(x), A.attr("both", v1), A.attr("bk", v2)))
        else:
            stmts.append(A.edge(A.var(x), A.var(x)))
            stmts.append(A.attre(A.var(x), A.var(x), A.attr("bk", v2), A.attr("both", v1)))
    return stmts


def make_run_prog(r, prev_globals, first):
    gl = [A.glob(g) for g in prev_globals]
    stanzas = [A.stanza("(module) @_m ", body(r, prev_globals, first))]
    if r.random() < 0.6:
        q = r.choice(["(identifier) @_id ", "(pass_statement) @_p ", "(expression_statement) @_s ", "[(integer) (string)] @_lit "])
        stanzas.append(A.stanza(q, body(r, prev_globals, True)[: r.randint(2, 5)]))
    if r.random() < 0.3:
        stanzas.append(A.stanza("(module) @_m ", body(r, prev_globals, False)))
    return A.file(stanzas, globals_=gl, shorthands=[A.shorthand("both", "bv", [A.attr("bk", A.var("bv")), A.attr("bl", A.var("bv"))])])


def make_cases(tier):
    r = A.rng(9)
    nsrc = A.n_sources()
    n = 120 if tier == "quick" else 3000
    cases = []
    for k in range(n):
        src = r.randint(1, nsrc)
        nruns = r.randint(1, 3)
        chain = None
        runs = []
        for j in range(nruns):
            prev = ["P0", "P1"][: r.randint(1, 2)] if j > 0 else []
            prog = make_run_prog(r, prev, j == 0)
            glob = {g: A.vgn(i) for i, g in enumerate(prev)}
            dbg = A.DBG_ON if r.random() < 0.3 else A.DBG_OFF
            runs.append(A.case("c09-%d-r%d" % (k, j + 1), prog, src, r.choice(["strict", "lazy"]), globals_=glob, dbg=dbg))
        for j in range(nruns - 2, -1, -1):
            runs[j]["next"] = runs[j + 1]
        cases.append(runs[0])
    # a later run against what an earlier run left in the graph: equal values are accepted, different ones conflict, whatever the
    # mode of either run and whether or not the later run re-creates the edge first
    v, i = A.var, A.integer
    first = A.file([A.stanza("(module) @_m ", [A.node(v("a")), A.node(v("b")), A.edge(v("a"), v("b")), A.attrn(v("a"), A.attr("k", i(1))),
                                               A.attre(v("a"), v("b"), A.attr("w", i(1)))])])
    later = {
        "node-conflict": [A.attrn(v("P0"), A.attr("k", i(2)))],
        "node-equal": [A.attrn(v("P0"), A.attr("k", i(1)), A.attr("fresh", i(5)))],
        "edge-conflict": [A.attre(v("P0"), v("P1"), A.attr("w", i(2)))],
        "edge-equal": [A.attre(v("P0"), v("P1"), A.attr("w", i(1)), A.attr("fresh", i(5)))],
        "edge-again-conflict": [A.edge(v("P0"), v("P1")), A.attre(v("P0"), v("P1"), A.attr("w", i(2)))],
        "edge-again-equal": [A.edge(v("P0"), v("P1")), A.attre(v("P0"), v("P1"), A.attr("w", i(1)))],
        "node-conflict-late": [A.node(v("c")), A.edge(v("c"), v("P0")), A.attrn(v("c"), A.attr("k", i(2))), A.attrn(v("P0"), A.attr("k", A.string("other")))],
    }
    # a node with more outgoing edges than fit a small inline buffer: a later run names one of the late edges
    many = [A.node(v("hub"))] + [A.node(v("s%d" % j)) for j in range(12)] + [A.attrn(v("s%d" % j), A.attr("id", i(j))) for j in range(12)] + [A.edge(v("hub"), v("s%d" % j)) for j in (5, 0, 11, 3, 8, 1, 10, 2, 9, 4, 7, 6)] \
        + [A.attre(v("hub"), v("s%d" % j), A.attr("w", i(j))) for j in (9, 0, 11, 4)]
    for j, (tgt, val, want) in enumerate([(10, 9, "ok"), (10, 1, "err"), (12, 11, "ok"), (12, 3, "err"), (5, 4, "ok"), (9, 7, "ok")]):
        for m1 in ("strict", "lazy"):
            for m2 in ("strict", "lazy"):
                r1 = A.case("c09m-%d-%s%s-r1" % (j, m1[0], m2[0]), A.file([A.stanza("(module) @_m ", json.loads(json.dumps(many)))]), 1, m1)
                # (graph node 0 is the hub, node k + 1 is s<k>)
                prog2 = A.file([A.stanza("(module) @_m ", [A.attre(v("P0"), v("P1"), A.attr("w", i(val)))])], globals_=[A.glob("P0"), A.glob("P1")])
                r2 = A.case("c09m-%d-%s%s-r2" % (j, m1[0], m2[0]), prog2, 1, m2, globals_={"P0": A.vgn(0), "P1": A.vgn(tgt)})
                r1["next"] = r2
                r1["expect_later"] = want
                cases.append(r1)
    k = 0
    for name, stmts in later.items():
        for m1 in ("strict", "lazy"):
            for m2 in ("strict", "lazy"):
                for dbg in ((A.DBG_OFF, A.DBG_ON) if tier == "thorough" or name.endswith("conflict") else (A.DBG_OFF,)):
                    r1 = A.case("c09h-%s-%d-r1" % (name, k), json.loads(json.dumps(first)), 1, m1, dbg=dbg)
                    prog2 = A.file([A.stanza("(module) @_m ", json.loads(json.dumps(stmts)))], globals_=[A.glob("P0"), A.glob("P1")])
                    r2 = A.case("c09h-%s-%d-r2" % (name, k), prog2, 1, m2, globals_={"P0": A.vgn(0), "P1": A.vgn(1)}, dbg=dbg)
                    r3 = A.case("c09h-%s-%d-r3" % (name, k), json.loads(json.dumps(prog2)), 1, m1, globals_={"P0": A.vgn(0), "P1": A.vgn(1)}, dbg=dbg)
                    r1["next"] = r2
                    r2["next"] = r3
                    r1["expect_later"] = "err" if "conflict" in name else "ok"
                    cases.append(r1)
                    k += 1
    return cases


def flatten(run):
    """every run of every chain becomes one (case, result, classification) row, chains kept together"""
    chains = []
    for top in run.cases:
        rows = []
        c = top
        while c is not None:
            rows.append(c)
            c = c.get("next")
        chains.append(rows)
    return chains


def graph_contains(prev, nxt):
    """every node, edge and attribute of prev is present, with the same value and index, in nxt"""
    if nxt["n"] < prev["n"]:
        return "fewer nodes"
    for i, node in enumerate(prev["nodes"]):
        m = nxt["nodes"][i]
        for k, v in node["attrs"].items():
            if k not in m["attrs"] or G.canon_value(m["attrs"][k], None) != G.canon_value(v, None):
                return "attribute %s of node %d changed or disappeared" % (k, i)
        sinks = {e["sink"]: e for e in m["out"]}
        for e in node["out"]:
            if e["sink"] not in sinks:
                return "edge %d -> %d disappeared" % (i, e["sink"])
            for k, v in e["attrs"].items():
                a = sinks[e["sink"]]["attrs"]
                if k not in a or G.canon_value(a[k], None) != G.canon_value(v, None):
                    return "attribute %s of edge %d -> %d changed or disappeared" % (k, i, e["sink"])
    return None


def edges_are_a_set(g):
    for i, node in enumerate(g["nodes"]):
        sinks = [e["sink"] for e in node["out"]]
        if sinks != sorted(set(sinks)):
            return "edges of node %d are not strictly ascending by sink: %s" % (i, sinks)
    return None


def judge(run):
    V = run.V
    stats = {"histories": 0, "runs": 0, "runs_after_preseed": 0, "conflicts": 0, "recreated_edges": 0}
    for rows in flatten(run):
        if "skip" in rows[0]:
            continue
        stats["histories"] += 1
        prev_graph = None
        for j, case in enumerate(rows):
            res = run.results.get(case["id"])
            o = case.get("outcome")
            if o is None or res is None:
                break
            cl = X.tolerate_hash_order(case, res, X.classify(case, res))
            stats["runs"] += 1
            if j > 0:
                stats["runs_after_preseed"] += 1
            payload = X.replay_payload(PROP, rows[0], res, cl)
            payload["run"] = j + 1
            payload["case"] = {k: rows[0][k] for k in rows[0] if k not in ("events", "retab", "matches", "lorder", "outcome")}
            if cl["verdict"] == "violation":
                V.violation(case["id"], payload, cl.get("sig"))
                break
            if cl["verdict"] in ("unsupported", "skip"):
                break
            if cl.get("drift"):
                V.note_drift(case["id"], cl["drift"])
            want = rows[0].get("expect_later")
            if want and j >= 1 and o["status"] != want and not (want == "err" and j == 2):
                payload["detail"] = "run %d over the graph of the earlier runs: %s, the property prescribes %s (an existing attribute keeps its value; a different value is a conflict, an equal one is not)" % (j + 1, o["status"], want)
                V.violation(case["id"] + "-later", payload, {"observed": o["status"], "later": want})
                break
            stats["recreated_edges"] += sum(1 for e in case["events"] if e.get("e") == "edge" and not e.get("new"))
            if o["status"] != "ok":
                if o.get("err", {}).get("kind") == "DuplicateAttribute":
                    stats["conflicts"] += 1
                break      # what a failed run leaves in the graph is not specified: the history ends here
            g = o["graph"]
            bad = edges_are_a_set(g)
            if not bad and prev_graph is not None:
                bad = graph_contains(prev_graph, g)
            if bad:
                payload["detail"] = bad
                V.violation(case["id"] + "-intact", payload, {"observed": "intact"})
                break
            if not G.equal_exact(G.from_spec(res["g"]), g):
                break      # same graph, other numbering: later globals would name other nodes
            prev_graph = g
    return stats


def run(tier):
    run = X.ExecRun(PROP, tier)
    run.add_cases("c09", make_cases(tier))
    stats = judge(run)
    # single-assignment with values that only LOOK equal (two different syntax nodes of one kind starting at the same position) and
    # with null (a value like any other): against the machine
    import checks.c04 as c04
    run2 = X.ExecRun(PROP, tier)
    run2.V = run.V
    names = A.source_names()
    nest = [j + 1 for j, nm in enumerate(names) if any(k in nm for k in ("s13_", "s17i_", "s02_"))]
    ident = []
    for k, f in enumerate(c04.identity_files()):
        for src in nest:
            ident += A.both_modes("c09i-%d-%d" % (k, src), f, src)
    run2.add_cases("c09_ident", ident)
    run2.classify_all()
    stats["identity_cases"] = len(ident)
    run.states += run2.states
    run.trans += run2.trans
    cov = run.coverage(RULE, {"histories": stats})
    cov["evaluations"] = stats["runs"]
    cov["traces_validated_against_impl"] = stats["runs"]
    return run.V.finish("model_checking", cov, X.TRUSTED + [
        "the content of the graph after a failed run is not specified; histories end at the first failing run"])


def replay(path):
    def j(run):
        judge(run)
        return 1 if run.V.violations else 0
    with open(path, encoding="utf-8") as f:
        rp = json.load(f)
    run = X.ExecRun(PROP, "quick")
    run.add_cases("c09_replay", [rp["case"]])
    rc = j(run)
    if rc:
        print("VIOLATION property=%s replay=%s" % (PROP, path))
    return rc
