"""C19 The command-line tool reports exactly what the library computes."""
import json
import os
import shutil
import subprocess

import astgen as A
import common as C

PROP = "C19"
RULE = ("TLC enumerates the CLI machine over all 2^5 combinations of --lazy, --json, --output, --quiet, --allow-parse-errors x {0,1,2,3 "
        "well-formed --global, duplicate name, missing '='} x scenario classes {accepted file and successful run, rejected DSL file, "
        "failing execution, source with syntax errors, syntax errors + failing execution}; every row is instantiated with concrete "
        "files (several per class) and run against the real binary built from /repo with --features cli; exit status, stdout "
        "(byte-equal to the library's pretty_print, or JSON equal to the library's), stderr diagnostic and the --output file are "
        "compared; non-trivial = the row reaches the loader")

GOOD_SRC = ["x = 1\ny = x\n", "def f(a):\n    return a\n", "é = \"中\"\nprint(é)\n"]
BAD_SRC = ["x = (1 +\ny = 2\n", "def f(:\n    pass\n", "def f():\n  return (\n", "f(1, 2\ng(3)\n", "x = 1\n§\ny = x\n"]


def dsl_ok(nglob):
    reads = "".join("  attr (n) g%d = G%d\n" % (i, i) for i in range(nglob))
    decl = "".join("global G%d\n" % i for i in range(nglob))
    return decl + "(module) @m {\n  node n\n  attr (n) text = (source-text @m), kind = \"module\"\n" + reads + "}\n(identifier) @id {\n  node n\n  attr (n) name = (source-text @id)\n  edge n -> n\n}\n"


def dsl_rejected(nglob):
    return "".join("global G%d\n" % i for i in range(nglob)) + "(module) @m {\n  let x = y\n}\n"


def dsl_execfail(nglob):
    return "".join("global G%d\n" % i for i in range(nglob)) + "(module) @_m {\n  node n\n  attr (n) k = 1\n  attr (n) k = 2\n}\n"


def run(tier):
    V = C.Verdicts(PROP, tier)
    d = C.workdir("c19")
    C.ensure_built()
    p = C.sh([os.path.join(C.VERIF, "bin", "setup-cli")], timeout=1800, check=False)
    cli = os.path.join(C.WORK, "cli-target", "debug", "tree-sitter-graph")
    if p.returncode != 0 or not os.path.exists(cli):
        raise C.ToolError("building the CLI failed:\n" + (p.stdout or "")[-3000:])
    recs, stats, _ = C.tlc("MCCli", "MCCli.cfg", {}, "c19_mc", timeout=600, nworkers=4)
    if not C.tlc_ok(stats):
        raise C.ToolError("MCCli failed: %s" % stats["errors"][:3])
    rows = recs.get("ROW", [])
    r = A.rng(19)
    env = dict(os.environ, TREE_SITTER_DIR=os.path.join(C.WORK, "ts", "cfg"), TREE_SITTER_LIBDIR=os.path.join(C.WORK, "ts", "lib"), RUST_BACKTRACE="0")
    files = os.path.join(d, "files")
    shutil.rmtree(files, ignore_errors=True)
    os.makedirs(files)
    # the harness' own corpus dir for the library side: write sources there
    libsrc = os.path.join(d, "libsrc")
    shutil.rmtree(libsrc, ignore_errors=True)
    os.makedirs(libsrc)
    all_src = GOOD_SRC + BAD_SRC
    for i, s in enumerate(all_src):
        with open(os.path.join(libsrc, "s%d.py" % i), "w", encoding="utf-8") as f:
            f.write(s)
    reps = 1 if tier == "quick" else 3
    jobs = []
    for row in rows:
        for rep in range(reps):
            g = row["globals"]
            nglob = {"none": 0, "one": 1, "two": 2, "three": 3, "dup": 2, "noeq": 1}[g]
            scen = row["scen"]
            text = {"ok": dsl_ok, "rejected": dsl_rejected, "execfail": dsl_execfail, "syntaxerr": dsl_ok, "syntaxerr-execfail": dsl_execfail}[scen](nglob)
            if not scen.startswith("syntaxerr"):
                si = r.randrange(len(GOOD_SRC))
            elif scen == "syntaxerr-execfail":
                si = len(GOOD_SRC) + r.choice([0, 1, 4])      # sources whose root is still a module (the failing stanza must match)
            else:
                si = len(GOOD_SRC) + r.randrange(len(BAD_SRC))
            gvals = {"G%d" % i: r.choice(["v%d" % i, "", "é=中", "a b", "x=y"]) for i in range(nglob)}
            args = []
            if g == "dup":
                args = ["--global", "G0=%s" % gvals["G0"], "--global", "G0=again", "--global", "G1=%s" % gvals["G1"]]
            elif g == "noeq":
                args = ["--global", "G0"]
            else:
                for k, v in gvals.items():
                    args += ["--global", "%s=%s" % (k, v)]
            jobs.append({"row": row, "text": text, "src": si + 1, "globals": gvals, "lazy": row["opts"]["lazy"], "gargs": args})
    lin, lout = os.path.join(d, "lib_in.ndjson"), os.path.join(d, "lib_out.ndjson")
    C.write_ndjson(lin, [{"text": j["text"], "src": j["src"], "globals": j["globals"], "lazy": j["lazy"]} for j in jobs])
    C.sh([C.TSGV, "libout", libsrc, lin, lout], timeout=600)
    libs = [x["lib"] for x in C.read_ndjson(lout)]
    stats2 = {"rows": len(rows), "invocations": 0, "exit0": 0, "exit_nonzero": 0, "json_outputs": 0, "pretty_outputs": 0, "output_files": 0}
    nontrivial = 0
    for k, (job, lib) in enumerate(zip(jobs, libs)):
        row, o = job["row"], job["row"]["opts"]
        tsg = os.path.join(files, "p%d.tsg" % k)
        src = os.path.join(files, "s%d.py" % k)
        outf = os.path.join(files, "o%d.json" % k)
        with open(tsg, "w", encoding="utf-8") as f:
            f.write(job["text"])
        with open(src, "w", encoding="utf-8") as f:
            f.write(all_src[job["src"] - 1])
        if o["output"] and k % 2 == 0:
            # the named file already exists and is longer than the new output (an earlier, larger result)
            with open(outf, "w", encoding="utf-8") as f:
                f.write("[\n" + ",\n".join('  {"id": %d, "edges": [], "attrs": {"stale": {"type": "string", "string": "left over"}}}' % i for i in range(60)) + "\n]\n")
            job["preexisting"] = True
        cmd = [cli, tsg, src]
        if o["lazy"]:
            cmd.append("--lazy")
        if o["json"]:
            cmd.append("--json")
        if o["output"]:
            cmd += ["--output", outf]
        if o["quiet"]:
            cmd.append("--quiet")
        if o["allow"]:
            cmd.append("--allow-parse-errors")
        cmd += job["gargs"]
        try:
            p = subprocess.run(cmd, env=env, stdout=subprocess.PIPE, stderr=subprocess.PIPE, timeout=60)
        except subprocess.TimeoutExpired:
            V.violation("row%d" % k, {"property": PROP, "detail": "the CLI did not terminate", "cmd": cmd[3:], "dsl_text": job["text"]}, {"observed": "hang"})
            continue
        stats2["invocations"] += 1
        out, err = p.stdout.decode("utf-8", "replace"), p.stderr.decode("utf-8", "replace")
        payload = {"property": PROP, "row": row, "options": cmd[3:], "dsl_text": job["text"], "source_text": all_src[job["src"] - 1],
                   "exit": p.returncode, "stdout": out[:2000], "stderr": err[:1500], "library": lib}
        sig = {"observed": "cli", "scen": row["scen"]}
        if row["exit"] != 2:
            nontrivial += 1
        # sanity of the instantiation: the library must classify the concrete files as the scenario says
        want_lib = {"ok": "ok", "rejected": "rejected", "execfail": "execfail", "syntaxerr": "ok", "syntaxerr-execfail": "execfail"}[row["scen"]]
        if lib["status"] != want_lib or (lib["status"] != "rejected" and lib.get("syntax_errors") != row["scen"].startswith("syntaxerr")):
            raise C.ToolError("scenario %s is instantiated with files the library classifies as %s" % (row["scen"], lib))
        problems = []
        if (p.returncode == 0) != (row["exit"] == 0):
            problems.append("exit status %d, expected %s" % (p.returncode, "0" if row["exit"] == 0 else "non-zero"))
        elif row["exit"] == 0:
            stats2["exit0"] += 1
            if row["stdout"] == "pretty":
                stats2["pretty_outputs"] += 1
                if out != lib["pretty"]:
                    problems.append("stdout is not the library's pretty-printed graph")
            elif row["stdout"] == "json":
                stats2["json_outputs"] += 1
                try:
                    if json.loads(out) != lib["json"]:
                        problems.append("stdout JSON differs from the library's JSON")
                except ValueError:
                    problems.append("stdout is not valid JSON")
            elif out != "":
                problems.append("stdout should be empty, got %r" % out[:80])
            if row["file"] == "json":
                stats2["output_files"] += 1
                try:
                    with open(outf, encoding="utf-8") as f:
                        if json.load(f) != lib["json"]:
                            problems.append("--output file differs from the library's JSON")
                except (OSError, ValueError) as ex:
                    problems.append("--output file missing or invalid: %s" % ex)
            elif os.path.exists(outf) and not job.get("preexisting"):
                problems.append("an --output file was written although none was requested")
        else:
            stats2["exit_nonzero"] += 1
            if out.strip() != "":
                problems.append("a graph or other text was printed on stdout although the run failed: %r" % out[:80])
            if err.strip() == "":
                problems.append("no diagnostic on stderr")
            if os.path.exists(outf) and not job.get("preexisting"):
                problems.append("an --output file was written although the run failed")
            if job.get("preexisting") and os.path.exists(outf) and "left over" not in open(outf, encoding="utf-8").read():
                problems.append("the existing --output file was modified although the run failed")
        if problems:
            payload["detail"] = "; ".join(problems)
            V.violation("row%d" % k, payload, sig)
    cov = {"states": stats["distinct"], "transitions": stats["states"], "traces_validated_against_impl": stats2["invocations"],
           "samples": [{"options": jobs[7]["row"], "dsl": jobs[7]["text"]}], "evaluations": stats2["invocations"],
           "distinct_nontrivial": nontrivial, "rule": RULE, "cli": stats2, "exhaustive": True}
    return V.finish("model_checking", cov, ["the python grammar is compiled from the registry sources by tree-sitter-loader (trusted)",
                                            "clap's usage errors are identified by a non-zero status and a message only"])


def replay(path):
    print("replay of CLI rows: re-run `bin/check C19 quick` (rows are regenerated deterministically)")
    return run("quick")
