"""C03 Each query match runs its stanza exactly once with correctly bound captures."""
import collections
import json
import os

import astgen as A
import common as C
import execpipe as X

PROP = "C03"
RULE = ("multi-stanza probe files over the query pool (fields, wildcards, alternations, anchors, predicates, ?, *, + captures, "
        "shared and _-prefixed names) x all corpus trees (incl. trees with ERROR nodes) x {strict, lazy}; each block records "
        "stanza number and every capture's binding; expectations come from raw tree-sitter (per-stanza queries) through the TLA+ "
        "machine; non-trivial = at least one match")


def probe_stanza(i, q, skip_underscore=False):
    stmts = [A.node(A.var("n")), A.attrn(A.var("n"), A.attr("st", A.integer(i)))]
    for c in q["caps"]:
        if skip_underscore and c["name"].startswith("_"):
            continue      # an unread `_` capture (its predicates must still filter the matches)
        stmts.append(A.attrn(A.var("n"), A.attr("c_" + c["name"].replace("-", "_"), A.cap(c["name"]))))
        if c["q"] in ("star", "plus", "*", "+", "ZeroOrMore", "OneOrMore") and i % 2 == 1:
            # a `*`/`+` capture is a list: it can be iterated by comprehensions and loops
            nm = c["name"].replace("-", "_")
            stmts.append(A.attrn(A.var("n"), A.attr("l_" + nm, A.listc(A.call("node-type", A.var("e_" + nm)), "e_" + nm, A.cap(c["name"])))))
            stmts.append(A.forin("f_" + nm, A.cap(c["name"]), [A.node(A.var("fn_" + nm))]))
    return A.stanza(q["q"], stmts)


def make_cases(tier):
    pool = A.query_pool()
    nsrc = A.n_sources()
    r = A.rng(3)
    cases = []
    k = 0
    # every single query on every tree
    singles = [(qi, s) for qi in range(len(pool)) for s in range(1, nsrc + 1)]
    if tier == "quick":
        r.shuffle(singles)
        # every query on the trees built for particular query shapes (repeated groups with two captures, comments, nested same-kind
        # nodes, zero-width nodes), a random selection of the rest
        names = A.source_names()
        special = {j + 1 for j, nm in enumerate(names) if any(k in nm for k in ("s17b_", "s17a_", "s17i_", "s17f_", "s13_"))}
        singles = [x for x in singles if x[1] in special] + [x for x in singles if x[1] not in special][:160]
    for qi, s in singles:
        prog = A.file([probe_stanza(1, pool[qi], skip_underscore=(qi + s) % 2 == 0)])
        cases += A.both_modes("c03s-%d-%d" % (qi, s), prog, s, visit=True)
    # every pair of queries that reuse a capture name with different quantifiers (or at different positions), both orders
    pairs = []
    for a in range(len(pool)):
        for b in range(len(pool)):
            if a == b:
                continue
            qa = {c["name"]: c["q"] for c in pool[a]["caps"]}
            qb = {c["name"]: c["q"] for c in pool[b]["caps"]}
            shared = [n for n in qa if n in qb]
            if any(qa[n] != qb[n] for n in shared) or (shared and len(qa) != len(qb)):
                pairs.append((a, b))
    rich = [2, 3, 5, 6, 7, 8, 11, 14, 17]      # sources with functions, calls, assignments, returns, blocks
    if tier == "quick":
        r.shuffle(pairs)
        pairs = pairs[:70]
    for a, b in pairs:
        for s in ([r.choice(rich)] if tier == "quick" else rich):
            skip = r.random() < 0.5
            prog = A.file([probe_stanza(1, pool[a], skip), probe_stanza(2, pool[b], skip)])
            cases += A.both_modes("c03p-%d-%d-%d" % (a, b, s), prog, s, visit=True)
    # many matches in progress at once (a pattern pairing every statement with a later sibling, on a source with ~300 statements)
    big = A.big_source()
    pair_q = next(i for i, q in enumerate(pool) if "(pass_statement) @end" in q["q"])
    ident_q = next(i for i, q in enumerate(pool) if q["q"].startswith("(identifier) @id"))
    light = lambda i, q: A.stanza(q["q"], [A.let(A.var("u%d" % j), A.cap(c["name"])) for j, c in enumerate(q["caps"]) if not c["name"].startswith("_")])
    cases += A.both_modes("c03big-3", A.file([light(1, pool[pair_q]), light(2, pool[pair_q]), light(3, pool[pair_q])]), big, visit=True)
    cases += A.both_modes("c03big-4", A.file([light(1, pool[pair_q]), light(2, pool[ident_q]), light(3, pool[pair_q]), light(4, pool[pair_q])]), big, visit=True)
    # one stanza on a 300-statement source (more matches in progress than a fixed cursor limit of 64, 128 or 256 would keep)
    cases += A.both_modes("c03wide-1", A.file([light(1, pool[pair_q])]), A.wide_source(), visit=True)
    # multi-stanza files (2-4 stanzas, repetitions allowed, shared capture names)
    nmulti = 60 if tier == "quick" else 1500
    for k in range(nmulti):
        n = r.randint(2, 4)
        qs = [r.randrange(len(pool)) for _ in range(n)]
        if r.random() < 0.3:
            qs[1] = qs[0]
        skip = r.random() < 0.5
        prog = A.file([probe_stanza(i + 1, pool[q], skip) for i, q in enumerate(qs)])
        cases += A.both_modes("c03m-%d" % k, prog, r.randint(1, nsrc), visit=True)
    return cases


def expected_matches(case):
    """[(stanza loc, root, caps)] per stanza from the oracle tables of the prepared case"""
    out = []
    for si, m in enumerate(case["matches"]):
        loc = case["prog"]["stanzas"][si]["loc"]
        quants = {c["name"]: c["q"] for c in m["caps"]}
        for mm in m["ms"]:
            out.append((si, tuple(loc), mm["root"], {k: (quants[k], v) for k, v in mm["caps"].items()}))
    return out


def judge(run):
    V = run.V
    stats = {"files": 0, "matches": 0, "visit_checks": 0}
    for case, res, cl in run.classified:
        o = case.get("outcome")
        if o and "skip" not in case and o["status"] == "load_err" and case.get("id", "").startswith(("c03s", "c03p", "c03big", "c03wide", "c03m")):
            # the probe files are valid by construction: every capture is used as its quantifier allows (`*`/`+` as lists)
            payload = X.replay_payload(PROP, case, res, cl)
            payload["detail"] = "a probe file is rejected by the loader, so no block runs for any match: %s" % o["err"]["display"][:300]
            V.violation(case["id"] + "-load", payload, {"observed": "load_err"})
            continue
        if not o or "skip" in case or o["status"] in ("load_err",):
            continue
        stats["files"] += 1
        exp = expected_matches(case)
        stats["matches"] += len(exp)
        payload = X.replay_payload(PROP, case, res, cl)
        # (a) the hooks: one `match` event per oracle match (only meaningful for runs that completed the match phase)
        if o["status"] == "ok" and not o.get("truncated"):
            got = collections.Counter((e["row"], e["col"], e["root"]) for e in case["events"] if e.get("e") == "match")
            want = collections.Counter((loc[0], loc[1], root) for (_, loc, root, _) in exp)
            if got != want:
                payload["detail"] = "blocks executed per (stanza, match root): %s, tree-sitter reports: %s" % (
                    sorted((got - want).items()), sorted((want - got).items()))
                V.violation(case["id"] + "-once", payload, {"observed": "match-multiset"})
        # (b) the public visitors
        vis = o.get("visits")
        if vis:
            stats["visit_checks"] += 1
            def norm(v, with_st):
                caps = {k: (c["q"], c["nodes"]) for k, c in v["caps"].items()}
                return ((tuple(v["st"]),) if with_st else ()) + (v["root"], json.dumps(caps, sort_keys=True))
            want_strict = [(loc, root, json.dumps(caps, sort_keys=True)) for (_, loc, root, caps) in exp]
            if vis["strict"] == "panic" or vis["lazy"] == "panic" or "panic" in vis["stanzas"]:
                payload["detail"] = "try_visit_matches panicked"
                V.violation(case["id"] + "-visit", payload, {"observed": "visit-panic"})
                continue
            got_strict = [norm(v, True) for v in vis["strict"]]
            if got_strict != want_strict:
                payload["detail"] = "File::try_visit_matches(strict) differs from tree-sitter's per-stanza matches"
                payload["got"], payload["want"] = got_strict[:20], want_strict[:20]
                V.violation(case["id"] + "-visit", payload, {"observed": "visit-strict"})
            got_lazy = sorted(norm(v, True) for v in vis["lazy"])
            if got_lazy != sorted(want_strict):
                payload["detail"] = "File::try_visit_matches(lazy) differs (as a multiset) from tree-sitter's per-stanza matches"
                payload["got"], payload["want"] = got_lazy[:20], sorted(want_strict)[:20]
                V.violation(case["id"] + "-visit", payload, {"observed": "visit-lazy"})
            for si, per in enumerate(vis["stanzas"]):
                want = [(root, json.dumps(caps, sort_keys=True)) for (s2, _, root, caps) in exp if s2 == si]
                if [norm(v, False) for v in per] != want:
                    payload["detail"] = "Stanza::try_visit_matches of stanza %d differs from tree-sitter's matches" % (si + 1)
                    V.violation(case["id"] + "-visit", payload, {"observed": "visit-stanza"})
    return stats


def run(tier):
    run = X.ExecRun(PROP, tier)
    import checks.c04 as c04
    names = A.source_names()
    nest = [j + 1 for j, nm in enumerate(names) if any(k in nm for k in ("s13_", "s17i_"))]
    ident = []
    for k, f in enumerate(c04.identity_files()[:12]):
        for src in nest:
            ident += A.both_modes("c03i-%d-%d" % (k, src), f, src)
    run.add_cases("c03", make_cases(tier) + ident)
    run.classify_all()
    stats = judge(run)
    return run.V.finish("model_checking", run.coverage(RULE, {"probe": stats}), X.TRUSTED)


def replay(path):
    def j(run):
        judge(run)
        return 1 if run.V.violations else 0
    return X.replay_generic(PROP, path, judge=j)
