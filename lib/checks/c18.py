"""C18 Syntax-error discovery returns exactly the outermost error and missing nodes."""
import json
import os
import re
import shutil
import subprocess

import astgen as A
import common as C

PROP = "C18"
RULE = ("(1) TLC: ALL ordered trees with at most 5 (thorough 6) nodes x all assignments of {ok, error, missing-on-leaf} x {all, first}: the "
        "cursor walk of find_errors equals the reference's Outermost definition and terminates; (2) Python sources with 0-6 injected "
        "syntax faults (deleted / duplicated tokens, unbalanced brackets, stray characters, faults at file start and end and on later "
        "lines, non-ASCII text): tree-sitter's flags are extracted independently, TLC evaluates Outermost and the walk on the real "
        "trees, and ParseError::all / first / into_all / into_first (after a move to another thread) and both displays are compared; "
        "non-trivial = the tree has at least one ERROR or MISSING node")

BASE = ["x = 1\ny = x\n", "def f(a, b):\n    return a + b\n\nf(1, 2)\n", "class A:\n    def m(self):\n        pass\n    x = 1\n",
        "if x:\n    y = 1\nelif z:\n    y = 2\nelse:\n    y = 3\n", "for i in xs:\n    print(i)\n", "a = [1, 2, 3]\nb = (a, a)\nc = {1: a}\n",
        "é = \"中文\"\nprint(é)\n", "x = \"a/b\"\ny = \"héllo wörld\"\nz = (x, y)\n", "import os\nfrom a.b import c\n", "pass\n",
        "foo(bar, baz=1, *qs)\nlambda q: q\n", "while True:\n    break\n", "try:\n    x()\nexcept E as e:\n    pass\n"]
TOKEN_RE = re.compile(r'\s+|[A-Za-z_]\w*|\d+|"[^"\n]*"|.', re.S)
STRAY = ["(", ")", "[", "]", "{", "}", ":", "=", "?", "$", "é", "中", "\"", ",", "def", "@@"]


def inject(text, r, nfaults):
    for _ in range(nfaults):
        toks = TOKEN_RE.findall(text)
        idx = [i for i, t in enumerate(toks) if not t.isspace()]
        if not idx:
            break
        k = r.randrange(7)
        if k == 0:
            i = r.choice(idx)
            toks[i] = ""
        elif k == 1:
            i = r.choice(idx)
            toks[i] = toks[i] + " " + toks[i]
        elif k == 2:
            i = r.choice(idx)
            toks.insert(i, r.choice(STRAY))
        elif k == 3:
            toks.insert(0, r.choice(STRAY))            # fault at file start
        elif k == 4:
            toks.append(r.choice(STRAY))               # fault at file end
        elif k == 5:
            later = [i for i in idx if "\n" in "".join(toks[:i])]
            i = r.choice(later or idx)
            toks[i] = r.choice(STRAY)
        else:
            i = r.choice(idx)
            if toks[i] in "([{":
                toks[i] = ""
            else:
                toks.insert(i, r.choice("([{"))
        text = "".join(toks)
    return text


# shapes that random fault injection reaches rarely: the root itself an ERROR node (recovery still open at end of file), several
# outermost errors, MISSING anonymous tokens only, MISSING named nodes, errors nested in errors, non-ASCII text on the first line
SHAPED = [
    "f(1, 2\ng(3)\n", "x = [1, 2\nprint(x)\n", "(((\n", "def f(:\n    pass\n", "def g(a, :\n    return a\n", "print(a[1)\n",
    "x = (1\ny = 2)\nz = [3\n", "a 42\nb 43\nc 44\n", "if x\n    y = 1\nelse\n    y = 2\n", "for i in :\n    pass\nwhile :\n    pass\n",
    "x = 1 +\ny = 2 *\nz = 3\n", "class :\n    def (self):\n        return\n", "print(é é)\nprint(ü ü)\n", "§\nx = 1\n§§\n",
    "x = 'é' 'a' = é é\ny = )\n", "def f():\n    return (\n\ndef g():\n    return ]\n", "a = {1: 2, 3\nb = {4\n", "lambda : :\n",
    "if a::\n    b)\n", "x = ''}\n+\n", "def f():\n    return\n    ]\n)\n", "(*a b, ''\nx = 1\n", "[*a b, ''", "a = 1 )) ]] }}\n", "f(a b c d)\n", "x = 1 2 3 ) ) )\n",
    "import\nfrom import x\nimport a.\n", "x = [1, 2, 3\n", "\n\n  )\n", "f(a)(b)(\n", "@\ndef f(): pass\n", "x = 1 if else 2\ny = 3 if 4 else\n",
]


def run(tier):
    V = C.Verdicts(PROP, tier)
    d = C.workdir("c18")
    C.ensure_built()
    # (1) design level: all small trees
    cfg = "MCParseErrorsGen.cfg" if tier == "quick" else "MCParseErrorsGen6.cfg"
    recs, gstats, _ = C.tlc("MCParseErrors", cfg, {}, "c18_gen", timeout=3000, mem="8g")
    if not C.tlc_ok(gstats):
        raise C.ToolError("MCParseErrors (generated trees) failed: %s" % gstats["errors"][:3])
    # (2) real trees
    srcdir = os.path.join(d, "src")
    shutil.rmtree(srcdir, ignore_errors=True)
    os.makedirs(srcdir)
    r = A.rng(18)
    n = 150 if tier == "quick" else 2500
    texts = []
    for k in range(n):
        nf = r.choice([0, 1, 1, 2, 2, 3, 4, 6])
        texts.append(inject(r.choice(BASE), r, nf))
    for f in sorted(os.listdir(C.CORPUS_PY)):
        with open(os.path.join(C.CORPUS_PY, f), encoding="utf-8") as fh:
            texts.append(fh.read())
    texts += SHAPED
    seen = set()
    k = 0
    for t in texts:
        if t in seen or not all(ord(ch) < 0x10000 for ch in t):
            continue
        seen.add(t)
        with open(os.path.join(srcdir, "f%05d.py" % k), "w", encoding="utf-8") as fh:
            fh.write(t)
        k += 1
    trees = os.path.join(d, "trees.json")
    C.sh([C.TSGV, "sources", srcdir, trees], timeout=600)
    recs, rstats, _ = C.tlc("MCParseErrors", "MCParseErrorsReal.cfg", {"TREES": trees}, "c18_real", timeout=3000, mem="8g")
    if not C.tlc_ok(rstats):
        raise C.ToolError("MCParseErrors (real trees) failed: %s" % rstats["errors"][:3])
    expect = {}
    for e in recs.get("EXPECT", []):
        expect[(e["tree"], e["first"])] = e
    out = os.path.join(d, "real.json")
    p = subprocess.run([C.TSGV, "parse-errors", srcdir, out], stdout=subprocess.PIPE, stderr=subprocess.DEVNULL, text=True, timeout=3000)
    C.killed_from_outside(p.returncode)
    if p.returncode != 0:
        V.violation("process", {"property": PROP, "detail": "the process listing parse errors died with status %d" % p.returncode}, {"observed": "abort"})
        real = []
    else:
        with open(out, encoding="utf-8") as f:
            real = json.load(f)
    names = sorted(os.listdir(srcdir))
    stats = {"sources": len(real), "with_errors": 0, "errors_reported": 0, "missing_nodes": 0, "displays_checked": 0}
    nontrivial = 0
    samples = []
    for i, rr in enumerate(real):
        ti = i + 1
        ea, ef = expect.get((ti, False)), expect.get((ti, True))
        if ea is None or ef is None:
            continue
        with open(os.path.join(srcdir, names[i]), encoding="utf-8") as fh:
            text = fh.read()
        payload = {"property": PROP, "source_text": text, "expected_all": ea, "expected_first": ef, "observed": rr}
        want_all = list(zip(ea["errors"], ea["kinds"]))
        got_all = [(x["node"], x["kind"]) for x in rr["all"]]
        want_first = list(zip(ef["errors"], ef["kinds"]))
        got_first = [(x["node"], x["kind"]) for x in rr["first"]]
        if want_all:
            stats["with_errors"] += 1
            nontrivial += 1
            if len(samples) < 3:
                samples.append({"source": text, "outermost": want_all})
        stats["errors_reported"] += len(got_all)
        stats["missing_nodes"] += sum(1 for x in got_all if x[1] == "miss")
        sig = {"observed": "parse-errors"}
        if got_all != want_all:
            payload["detail"] = "ParseError::all reports (preorder node, kind) %s; the outermost ERROR/MISSING nodes are %s" % (got_all[:8], want_all[:8])
            V.violation("src%d-all" % ti, payload, dict(sig, what="all"))
        if got_first != want_first:
            payload["detail"] = "ParseError::first reports %s; the first outermost node is %s" % (got_first, want_first)
            V.violation("src%d-first" % ti, payload, dict(sig, what="first"))
        if [x["kind"] for x in rr["moved_all"]] != [k for _, k in want_all] or [x["kind"] for x in rr["moved_first"]] != [k for _, k in want_first]:
            payload["detail"] = "into_all / into_first (moved to another thread) disagree with the borrowed variants"
            V.violation("src%d-moved" % ti, payload, dict(sig, what="moved"))
        for x in rr["all"]:
            stats["displays_checked"] += 1
            cite = "%d:%d" % (x["row"] + 1, x["col"] + 1)
            problems = []
            if x["display_panic"]:
                problems.append("display panicked")
            elif cite not in (x["display"] or ""):
                problems.append("display does not cite %s" % cite)
            if x["pretty_panic"]:
                problems.append("display_pretty panicked")
            elif x["text_first_line"] and cite not in (x["pretty"] or ""):
                problems.append("display_pretty does not cite %s" % cite)
            if problems:
                payload["detail"] = "error at node %d (%s): %s" % (x["node"], cite, "; ".join(problems))
                V.violation("src%d-display" % ti, payload, dict(sig, what="display", msg=";".join(problems), at_byte0=(x["row"] == 0 and x["col"] == 0)))
                break
    cov = {"states": gstats["distinct"] + rstats["distinct"], "transitions": gstats["states"] + rstats["states"],
           "traces_validated_against_impl": len(real), "samples": samples or [{"source": texts[0]}],
           "evaluations": len(real), "distinct_nontrivial": nontrivial, "rule": RULE, "real_trees": stats,
           "generated_trees": {"config": cfg, "distinct_states": gstats["distinct"], "depth": gstats["depth"], "exhaustive": True}}
    return V.finish("model_checking", cov, ["the ERROR / MISSING flags and the tree shape are tree-sitter's (extracted without the library)",
                                            "memory safety of the lifetime transmute in the owning variants is not decided; only their answers are compared"])


def replay(path):
    with open(path, encoding="utf-8") as f:
        rp = json.load(f)
    C.ensure_built()
    d = C.workdir("c18_replay")
    srcdir = os.path.join(d, "src")
    shutil.rmtree(srcdir, ignore_errors=True)
    os.makedirs(srcdir)
    with open(os.path.join(srcdir, "f.py"), "w", encoding="utf-8") as fh:
        fh.write(rp["source_text"])
    out = os.path.join(d, "real.json")
    p = subprocess.run([C.TSGV, "parse-errors", srcdir, out], stdout=subprocess.PIPE, stderr=subprocess.DEVNULL, text=True)
    if p.returncode != 0:
        print("VIOLATION property=%s replay=%s" % (PROP, path))
        return 1
    rr = json.load(open(out))[0]
    ea, ef = rp["expected_all"], rp["expected_first"]
    bad = [(x["node"], x["kind"]) for x in rr["all"]] != list(zip(ea["errors"], ea["kinds"])) or \
        [(x["node"], x["kind"]) for x in rr["first"]] != list(zip(ef["errors"], ef["kinds"])) or \
        any(x["display_panic"] or x["pretty_panic"] or ("%d:%d" % (x["row"] + 1, x["col"] + 1)) not in (x["display"] or "") for x in rr["all"])
    print(json.dumps(rr)[:500])
    if bad:
        print("VIOLATION property=%s replay=%s" % (PROP, path))
        return 1
    return 0
