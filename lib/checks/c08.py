"""C08 Lazy evaluation does not depend on the order of stanzas."""
import itertools
import json
import os

import astgen as A
import common as C
import execpipe as X
import graphiso as G

PROP = "C08"
RULE = ("seeded random accepted files (2-4 stanzas in TLC-validated runs, incl. scoped variables read before their definition and "
        "attributes on edges created by later stanzas, several edges out of one node to nodes created by different stanzas, comprehensions "
        "whose element reads a scoped variable defined by another stanza) x all permutations of their stanzas x corpus trees, lazy mode; groups in "
        "which a graph-node number is rendered as text (decided by the machine) are excluded; non-trivial = at least one statement "
        "executed and at least 2 stanzas")


def forward_reference_files(r, pool):
    """hand-shaped files exercising the two situations the property names"""
    q_id = "(identifier) @id "
    q_asg = "(assignment left: (identifier) @name) "
    files = []
    files.append(A.file([
        A.stanza(q_id, [A.node(A.var("n")), A.attrn(A.var("n"), A.attr("v", A.svar(A.cap("id"), "late")))]),
        A.stanza(q_id, [A.let(A.svar(A.cap("id"), "late"), A.call("source-text", A.cap("id")))]),
    ]))
    files.append(A.file([
        A.stanza(q_id, [A.attre(A.svar(A.cap("id"), "a"), A.svar(A.cap("id"), "b"), A.attr("k", A.integer(1)))]),
        A.stanza(q_id, [A.node(A.svar(A.cap("id"), "a")), A.node(A.svar(A.cap("id"), "b"))]),
        A.stanza(q_id, [A.edge(A.svar(A.cap("id"), "a"), A.svar(A.cap("id"), "b"))]),
    ]))
    files.append(A.file([
        A.stanza(q_asg, [A.node(A.var("n")), A.attrn(A.var("n"), A.attr("scope", A.svar(A.cap("name"), "env")))]),
        A.stanza("(module) @m ", [A.let(A.svar(A.cap("m"), "env"), A.string("root"))]),
        A.stanza("(function_definition) @fn ", [A.let(A.svar(A.cap("fn"), "env"), A.call("source-text", A.cap("fn")))]),
    ], inherit=["env"]))
    return files


REJECTED = []      # files the specification's checker refuses: run without the machine (see judge_rejected)


def judge_rejected(V):
    """every permutation of the REJECTED files is executed directly; if the loader accepts them, success and graph must not depend
    on the order of the stanzas"""
    import graphiso as G
    d = C.workdir("c08_rejected")
    cases = []
    for c in REJECTED:
        st = c["prog"]["stanzas"]
        for pi, perm in enumerate(itertools.permutations(range(len(st)))):
            cc = json.loads(json.dumps(c))
            cc["prog"]["stanzas"] = [json.loads(json.dumps(st[j])) for j in perm]
            cc["id"] = "%s~p%d" % (c["id"], pi)
            cases.append(cc)
    raw, out = os.path.join(d, "raw.ndjson"), os.path.join(d, "out.ndjson")
    C.write_ndjson(raw, [X.strip_nulls(c) for c in cases])
    st_, _ = C.run_cases(raw, out)
    if st_ != "ok":
        V.violation("c08rej-crash", {"property": PROP, "detail": "executing the permutations of files that break the locality rules made the process " + st_}, {"observed": "abort"})
        return
    groups = {}
    for c in C.read_ndjson(out):
        groups.setdefault(c["id"].split("~")[0], []).append(c)
    for gid, cs in groups.items():
        outs = [c.get("outcome", {}) for c in cs]
        if all(o.get("status") == "load_err" for o in outs):
            continue
        base = outs[0]
        for c, o in zip(cs[1:], outs[1:]):
            differs = (o.get("status") == "ok") != (base.get("status") == "ok") or \
                (o.get("status") == "ok" and G.isomorphic(o["graph"], base["graph"]) is False)
            if differs:
                V.violation(gid + "-order", {"property": PROP, "dsl_text": c.get("text"), "first_order": cs[0].get("text"), "a": base, "b": o,
                                             "detail": "the file is accepted and its outcome depends on the order of its stanzas: %s vs %s" % (base.get("status"), o.get("status"))},
                            {"observed": "order-dependent"})
                break


def make_cases(tier):
    del REJECTED[:]
    d = C.workdir("c08")
    raw = os.path.join(d, "gen.ndjson")
    n = 40 if tier == "quick" else 500
    C.gen_cases(n, C.seed() * 1000 + 80, raw, "default")
    base = [c for c in C.read_ndjson(raw) if c["mode"] == "lazy"]
    for c in base:
        c["dbg"] = A.DBG_OFF     # debug attributes cite source locations, which legitimately move with the stanzas
    r = A.rng(8)
    pool = A.query_pool()
    nsrc = A.n_sources()
    for i, f in enumerate(forward_reference_files(r, pool)):
        for s in range(1, nsrc + 1):
            base.append(A.case("c08h-%d-%d-lazy" % (i, s), f, s, "lazy"))
    # files whose stanzas reuse a capture name with different quantifiers (acceptance must not depend on the order either)
    import checks.c03 as c03
    for a in range(len(pool)):
        for b in range(a + 1, len(pool)):
            qa = {c["name"]: c["q"] for c in pool[a]["caps"]}
            qb = {c["name"]: c["q"] for c in pool[b]["caps"]}
            if any(n in qb and qa[n] != qb[n] for n in qa):
                extra = r.choice(range(len(pool)))
                prog = A.file([c03.probe_stanza(1, pool[a]), c03.probe_stanza(2, pool[b]), c03.probe_stanza(3, pool[extra])][: (2 if r.random() < 0.5 else 3)])
                base.append(A.case("c08q-%d-%d-lazy" % (a, b), prog, r.choice([2, 3, 5, 6, 7, 8, 11, 14, 17]), "lazy"))
    # many matches in progress at once: three stanzas pairing every statement of a 100-statement source with a later sibling;
    # only the first one creates nodes, so losing matches of one stanza or another changes the graph
    pair_q = next(q for q in pool if "(pass_statement) @end" in q["q"])
    mk = lambda with_node: A.stanza(pair_q["q"], ([A.node(A.var("n")), A.attrn(A.var("n"), A.attr("of", A.cap("name")))] if with_node else [A.let(A.var("u"), A.cap("name"))]) + [A.let(A.var("w"), A.cap("end"))])
    base.append(A.case("c08big-lazy", A.file([mk(True), mk(False), mk(False)]), A.big_source(), "lazy"))
    # two nodes linked in both directions by different stanzas, with attributes on both edges
    q_id = "(identifier) @id "
    base.append(A.case("c08opp-lazy", A.file([
        A.stanza(q_id, [A.node(A.svar(A.cap("id"), "a")), A.node(A.svar(A.cap("id"), "b"))]),
        A.stanza(q_id, [A.edge(A.svar(A.cap("id"), "a"), A.svar(A.cap("id"), "b")), A.attre(A.svar(A.cap("id"), "a"), A.svar(A.cap("id"), "b"), A.attr("dir", A.string("ab")))]),
        A.stanza(q_id, [A.edge(A.svar(A.cap("id"), "b"), A.svar(A.cap("id"), "a"))]),
    ]), 2, "lazy"))
    base.append(A.case("c08opp2-lazy", A.file([
        A.stanza("(module) @m ", [A.node(A.svar(A.cap("m"), "a")), A.node(A.svar(A.cap("m"), "b")), A.edge(A.svar(A.cap("m"), "b"), A.svar(A.cap("m"), "a"))]),
        A.stanza(q_id, [A.edge(A.svar(A.cap("id"), "a"), A.svar(A.cap("id"), "b"))]),
        A.stanza("(module) @m ", [A.attre(A.svar(A.cap("m"), "a"), A.svar(A.cap("m"), "b"), A.attr("k", A.integer(1)))]),
    ], inherit=["a", "b"]), 2, "lazy"))
    # several edges out of one node to nodes which different stanzas create (their numbers depend on the stanza order), then lookups
    # of those edges: attributes and a repeated `edge`
    m = A.cap("m")
    sv = lambda n: A.svar(m, n)
    qm = "(module) @m "
    base.append(A.case("c08fan-lazy", A.file([
        A.stanza(qm, [A.node(sv("a")), A.attrn(sv("a"), A.attr("id", A.string("a")))]),
        A.stanza(qm, [A.node(sv("b")), A.attrn(sv("b"), A.attr("id", A.string("b")))]),
        A.stanza(qm, [A.node(sv("c")), A.edge(sv("c"), sv("a")), A.edge(sv("c"), sv("b")), A.attre(sv("c"), sv("a"), A.attr("k", A.integer(1))),
                      A.attre(sv("c"), sv("b"), A.attr("k", A.integer(2))), A.edge(sv("c"), sv("a"))]),
    ]), 2, "lazy"))
    base.append(A.case("c08fan2-lazy", A.file([
        A.stanza(qm, [A.node(sv("a")), A.attrn(sv("a"), A.attr("id", A.string("a"))), A.edge(sv("c"), sv("a"))]),
        A.stanza(qm, [A.node(sv("b")), A.attrn(sv("b"), A.attr("id", A.string("b"))), A.edge(sv("c"), sv("b")), A.node(sv("d")), A.attrn(sv("d"), A.attr("id", A.string("d"))), A.edge(sv("c"), sv("d"))]),
        A.stanza(qm, [A.node(sv("c")), A.attre(sv("c"), sv("b"), A.attr("k", A.integer(2))), A.attre(sv("c"), sv("a"), A.attr("k", A.integer(1))),
                      A.attre(sv("c"), sv("d"), A.attr("k", A.integer(3)))]),
    ]), 3, "lazy"))
    # comprehensions whose ELEMENT reads a scoped variable that another stanza (matching the same node) defines
    qxs = "(module (_)* @xs) @m "
    defs = A.stanza("(module (_)* @xs) @_m ", [A.forin("x", A.cap("xs"), [A.let(A.svar(A.var("x"), "text"), A.call("source-text", A.var("x")))])])
    for j, comp in enumerate([A.listc(A.svar(A.var("x"), "text"), "x", A.cap("xs")),
                              A.setc(A.call("node-type", A.var("x")), "x", A.cap("xs")),
                              A.listc(A.call("format", A.string("{}!"), A.svar(A.var("x"), "text")), "x", A.cap("xs")),
                              A.listc(A.lst(A.svar(A.var("x"), "text"), sv("tag")), "x", A.cap("xs"))]):
        reader = A.stanza(qxs, [A.node(sv("n")), A.attrn(sv("n"), A.attr("texts", comp))])
        tagdef = A.stanza(qm, [A.let(sv("tag"), A.string("t"))])
        for src in (2, 5, 7):
            base.append(A.case("c08comp-%d-%d-lazy" % (j, src), A.file([reader, defs, tagdef]), src, "lazy"))
    # a scoped variable whose value is first forced either on its own or in the middle of another call's parameter list,
    # depending on the stanza order (values: a call without arguments, a set, a list, a nested call)
    for j, (value, reader) in enumerate([
            (A.call("node"), lambda x: A.call("and", A.true(), A.call("not", A.call("is-null", x)))),
            (A.call("node"), lambda x: A.call("eq", x, x)),
            (A.st(A.integer(1), A.integer(2)), lambda x: A.call("eq", A.st(A.integer(2), A.integer(1)), x)),
            (A.st(A.false()), lambda x: A.call("or", A.true(), A.call("is-null", x))),
            (A.lst(A.call("node"), A.st(A.string("a"))), lambda x: A.call("concat", A.lst(A.integer(0)), x, A.lst(A.call("length", x)))),
            (A.call("plus", A.integer(1), A.call("plus")), lambda x: A.call("format", A.string("{}-{}-{}"), A.string("p"), x, A.call("plus", x, x)))]):
        base.append(A.case("c08buf-%d-lazy" % j, A.file([
            A.stanza(qm, [A.let(sv("val"), value)]),
            A.stanza(qm, [A.node(sv("rb")), A.attrn(sv("rb"), A.attr("r", reader(sv("val"))))]),
            A.stanza(qm, [A.node(sv("rc")), A.attrn(sv("rc"), A.attr("plain", sv("val")))]),
        ]), 2 + j % 2, "lazy"))
    # a name defined once on most nodes and twice on a few (by a stanza with a predicate): a duplicate in every order
    for j, pred in enumerate(['(#match? @id "^[a-c]$")', '(#eq? @id "x")', '(#match? @id "^[f-z]")']):
        f = A.file([A.stanza(q_id, [A.let(A.svar(A.cap("id"), "v"), A.string("first"))]),
                    A.stanza("((identifier) @id %s) " % pred, [A.let(A.svar(A.cap("id"), "v"), A.string("second"))]),
                    A.stanza(q_id, [A.node(A.var("n")), A.attrn(A.var("n"), A.attr("v", A.svar(A.cap("id"), "v")))])])
        for src in (2, 3, 7, 9, 17):
            base.append(A.case("c08dup-%d-%d-lazy" % (j, src), f, src, "lazy"))
    # the second definition reaches the node through another pattern (processed later, other nodes' definitions in between)
    import checks.c04 as c04
    for j, f in enumerate(c04.duplicate_files()[3:]):
        for src in (2, 20):
            base.append(A.case("c08dup2-%d-%d-lazy" % (j, src), f, src, "lazy"))
    # all stanzas match at the same node, so the stanza order is the processing order: two definitions of one variable on that node,
    # with definitions of the same name on OTHER nodes (children reached through a capture) between them in some orders only
    for j, (kind, src) in enumerate([("pass_statement", 1), ("expression_statement", 2), ("_", 5)]):
        # (the three patterns have the same shape, so that their matches are reported together and the stanza order decides)
        qa = "(module (%s) @_p) @m " % kind
        qb = "(module (%s) @p) @_m " % kind
        base.append(A.case("c08sep-%d-lazy" % j, A.file([
            A.stanza(qa, [A.let(sv("v"), A.string("a"))]),
            A.stanza(qb, [A.let(A.svar(A.cap("p"), "v"), A.string("b"))]),
            A.stanza(qa, [A.let(sv("v"), A.string("d"))]),
        ]), src, "lazy"))
    base.append(A.case("c08sep2-lazy", A.file([
        A.stanza(qm, [A.let(sv("v"), A.string("a")), A.node(sv("n")), A.attrn(sv("n"), A.attr("v", sv("v")))]),
        A.stanza("(module (_)* @cs) @_m ", [A.forin("c", A.cap("cs"), [A.let(A.svar(A.var("c"), "v"), A.string("b"))])]),
        A.stanza(qm, [A.let(sv("v"), A.string("d"))]),
    ]), 5, "lazy"))
    # two stanzas give one attribute of a shared node two DIFFERENT syntax nodes of the same kind and start position; a null and a
    # non-null value: a conflict in every order
    nest_srcs = [j + 1 for j, nm in enumerate(A.source_names()) if any(k in nm for k in ("s13_", "s17i_"))]
    for j, q in enumerate(["(call function: (call) @inner) @outer ", "(attribute object: (attribute) @inner) @outer ", "(binary_operator left: (binary_operator) @inner) @outer "]):
        f = A.file([A.stanza(qm, [A.node(sv("shared"))]),
                    A.stanza(q, [A.attrn(A.svar(A.cap("outer"), "shared"), A.attr("which", A.cap("outer"))), A.let(A.var("u"), A.cap("inner"))]),
                    A.stanza(q, [A.attrn(A.svar(A.cap("inner"), "shared"), A.attr("which", A.cap("inner"))), A.let(A.var("u"), A.cap("outer"))])], inherit=["shared"])
        for src in nest_srcs:
            base.append(A.case("c08ident-%d-%d-lazy" % (j, src), f, src, "lazy"))
    base.append(A.case("c08null-lazy", A.file([A.stanza(qm, [A.node(sv("shared"))]),
                                               A.stanza(qm, [A.attrn(sv("shared"), A.attr("a", A.null()))]),
                                               A.stanza(qm, [A.attrn(sv("shared"), A.attr("a", A.integer(1)))])]), 2, "lazy"))
    # the scope of a definition named through a local variable whose value reads a scoped variable of another stanza; an edge created
    # by two stanzas of which one also gives it an attribute right after creating it
    base.append(A.case("c08scope-lazy", A.file([
        A.stanza(qm, [A.let(sv("owner"), A.cap("m"))]),
        A.stanza(qm, [A.let(A.var("o"), sv("owner")), A.let(A.svar(A.var("o"), "flag"), A.true()), A.node(A.var("n")), A.attrn(A.var("n"), A.attr("f", A.svar(A.var("o"), "flag")))]),
        A.stanza(qm, [A.node(A.var("k")), A.attrn(A.var("k"), A.attr("g", A.svar(A.cap("m"), "flag")))]),
    ]), 2, "lazy"))
    base.append(A.case("c08merge-lazy", A.file([
        A.stanza(qm, [A.node(sv("a")), A.node(sv("b"))]),
        A.stanza(qm, [A.edge(sv("a"), sv("b"))]),
        A.stanza(qm, [A.edge(sv("a"), sv("b")), A.attre(sv("a"), sv("b"), A.attr("k", A.integer(1)))]),
    ]), 2, "lazy"))
    base.append(A.case("c08merge2-lazy", A.file([
        A.stanza(qm, [A.node(sv("a")), A.node(sv("b")), A.edge(sv("a"), sv("b")), A.attre(sv("a"), sv("b"), A.attr("first", A.integer(1)))]),
        A.stanza(qm, [A.edge(sv("a"), sv("b")), A.attre(sv("a"), sv("b"), A.attr("k", A.integer(1)))]),
        A.stanza(qm, [A.edge(sv("b"), sv("a")), A.attre(sv("b"), sv("a"), A.attr("back", A.integer(1))), A.edge(sv("a"), sv("b"))]),
    ]), 5, "lazy"))
    # a condition that depends on another stanza's scoped variable (refused by the loader; were it accepted, the outcome would have
    # to be the same in every order all the same)
    REJECTED.append(A.case("c08cond-lazy", A.file([
        A.stanza(qm, [A.let(sv("lang"), A.string("python"))]),
        A.stanza(qm, [A.iff(([A.cond("bool", A.call("eq", sv("lang"), A.string("python")))], [A.node(A.var("n"))]))]),
    ]), 2, "lazy"))
    REJECTED.append(A.case("c08cond2-lazy", A.file([
        A.stanza(qm, [A.let(sv("txt"), A.string("ab"))]),
        A.stanza(qm, [A.scan(A.call("format", A.string("{}{}"), sv("txt"), A.string("x")), ("a", [A.node(A.var("n"))]))]),
    ]), 2, "lazy"))
    # a stanza whose query is the bare wildcard, in every position of the file
    base.append(A.case("c08wild-lazy", A.file([
        A.stanza("(pass_statement) @p ", [A.node(A.svar(A.cap("p"), "n"))]),
        A.stanza("_ @_any ", [A.node(A.var("k")), A.attrn(A.var("k"), A.attr("w", A.integer(1)))]),
        A.stanza("(module) @m ", [A.node(A.svar(A.cap("m"), "n"))]),
    ]), 1, "lazy"))
    cases = []
    maxn = 3 if tier == "quick" else 4
    for c in base:
        st = c["prog"]["stanzas"]
        if len(st) < 2:
            continue
        if len(st) > maxn:
            st = st[:maxn]
        perms = list(itertools.permutations(range(len(st))))
        for pi, perm in enumerate(perms):
            cc = json.loads(json.dumps(c))
            cc["prog"]["stanzas"] = [json.loads(json.dumps(st[j])) for j in perm]
            cc["id"] = "%s~p%d" % (c["id"], pi)
            cc["perm"] = list(perm)
            cases.append(cc)
    return cases


def judge(run):
    V = run.V
    groups = {}
    for case, res, cl in run.classified:
        groups.setdefault(case["id"].split("~p")[0], []).append((case, res, cl))
    stats = {"groups": 0, "compared": 0, "permutations": 0, "excluded_text": 0, "all_ok": 0, "all_err": 0}
    for key, members in sorted(groups.items()):
        if any("outcome" not in c or "skip" in c for c, r, _ in members):
            continue
        loads = [c["outcome"]["status"] == "load_err" for c, _, _ in members]
        if any(loads):
            stats["groups"] += 1
            if not all(loads):
                c0 = members[loads.index(False)][0]
                c1 = members[loads.index(True)][0]
                payload = {"property": PROP, "detail": "the loader accepts the file in stanza order %s and rejects it in order %s: %s" % (
                    c0["perm"], c1["perm"], c1["outcome"]["err"]["display"]), "dsl_text": c1.get("text"), "accepted_text": c0.get("text"),
                    "cases": [{k: x[k] for k in x if k not in ("events", "retab", "matches", "lorder", "outcome", "text")} for x in (c0, c1)]}
                V.violation(c1["id"], payload, {"observed": "order-dependent-load"})
            continue
        if any(r is None or r["status"] == "unsupported" for c, r, _ in members):
            continue
        stats["groups"] += 1
        if any(r["gntext"] for _, r, _ in members):
            stats["excluded_text"] += 1
            continue
        stats["compared"] += 1
        stats["permutations"] += len(members)
        c0, r0, _ = members[0]
        # on the model
        for c, r, _ in members[1:]:
            same = (r["status"] == "ok") == (r0["status"] == "ok")
            if same and r["status"] == "ok":
                same = G.isomorphic(G.from_spec(r0["g"]), G.from_spec(r["g"])) is not False
            if not same:
                raise C.ToolError("model-level: the lazy machine depends on the stanza order for %s (%s vs %s)" % (key, r0["status"], r["status"]))
        # on the implementation
        o0 = c0["outcome"]
        if o0["status"] == "ok":
            stats["all_ok"] += 1
        else:
            stats["all_err"] += 1
        for c, r, cl in members[1:]:
            o = c["outcome"]
            if o["status"] in ("panic", "abort") or o0["status"] in ("panic", "abort"):
                continue   # reported by classify_all
            diff = None
            if (o["status"] == "ok") != (o0["status"] == "ok"):
                diff = "order %s: %s, order %s: %s" % (c0["perm"], o0["status"], c["perm"], o["status"])
            elif o["status"] == "ok" and G.isomorphic(o0["graph"], o["graph"]) is False:
                diff = "orders %s and %s give graphs that are not isomorphic" % (c0["perm"], c["perm"])
            if diff:
                payload = X.replay_payload(PROP, c, r, cl)
                payload["detail"] = diff
                payload["cases"] = [{k: x[k] for k in x if k not in ("events", "retab", "matches", "lorder", "outcome", "text")} for x in (c0, c)]
                for x in payload["cases"]:
                    pass
                V.violation(c["id"], payload, {"observed": "order-dependent"})
    return stats


def run(tier):
    run = X.ExecRun(PROP, tier)
    cases = make_cases(tier)
    # design level: MCExec checks OrderIndependent (lazy outcome unchanged when the two stanzas are swapped) on every enumerated
    # program; a sample is replayed in both orders
    import mcexec
    progs, mstats, t = mcexec.run(tier, "c08_mcexec")
    rr = A.rng(88)
    sample = rr.sample(progs, min(len(progs), 120 if tier == "quick" else 6000))
    for k, p in enumerate(sample):
        prog = mcexec.strip_locs(p["prog"])
        for pi, perm in enumerate(([0, 1], [1, 0])):
            cc = A.case("c08e-%d-lazy~p%d" % (k, pi), json.loads(json.dumps(dict(prog, stanzas=[prog["stanzas"][j] for j in perm]))), t["src"], "lazy")
            cc["perm"] = perm
            cases.append(cc)
    # the same over the wide statement pool (closed programs only: values first forced on their own or inside another call's
    # parameters, unused variables, var/set, comprehension, scan, shorthand, print)
    wprogs, wstats, wt = mcexec.run(tier, "c08_mcexec_wide", wide=True)
    wsample = [p for p in wprogs if p["lazy"] == "ok"]
    rr.shuffle(wsample)
    wsample = wsample[: (150 if tier == "quick" else 6000)]
    for k, p in enumerate(wsample):
        prog = mcexec.strip_locs(p["prog"])
        for pi, perm in enumerate(([0, 1], [1, 0])):
            cc = A.case("c08w-%d-lazy~p%d" % (k, pi), json.loads(json.dumps(dict(prog, stanzas=[prog["stanzas"][j] for j in perm]))), wt["src"], "lazy")
            cc["perm"] = perm
            cases.append(cc)
    mstats["distinct"] += wstats["distinct"]
    mstats["states"] += wstats["states"]
    progs = progs + wprogs
    sample = sample + wsample
    run.add_cases("c08", cases)
    judge_rejected(run.V)
    run.states += mstats["distinct"]
    run.trans += mstats["states"]
    run.classify_all(panic_only=True)
    stats = judge(run)
    cov = run.coverage(RULE, {"permutation_groups": stats, "mcexec": {"programs_enumerated": len(progs), "distinct_states": mstats["distinct"],
                                                                      "replayed_in_both_orders": len(sample), "exhaustive": True}})
    return run.V.finish("model_checking", cov, X.TRUSTED)


def replay(path):
    def j(run):
        judge(run)
        return 1 if run.V.violations else 0
    return X.replay_generic(PROP, path, judge=j)
