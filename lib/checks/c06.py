"""C06 The static checker rejects exactly the programs that break a documented rule."""
import copy
import json
import os
import re

import astgen as A
import common as C
import execpipe as X

PROP = "C06"
RULE = ("valid skeleton files (hand-shaped nests of if / for / scan / comprehension over queries with one, optional and list captures, plus "
        "seeded random accepted programs) and every file obtained by injecting exactly one rule violation of the catalogue (undefined / "
        "out-of-scope local, redefinition, assignment to immutable / undefined / global, hidden or duplicate global, unused and undefined "
        "capture, non-local scan / if / for / comprehension source through let-chains, calls, list literals and after a set, some/none on "
        "a non-optional, iteration over a non-list, nullable regex, capture in a shorthand) at every block position and nesting depth; "
        "TLC evaluates the TLA+ transcription of the rules (TSGChecker!Check) on each file; the loader must accept exactly the files "
        "Check accepts and report the same rule at the same location; non-trivial = a faulted file")

Q_FN = "(function_definition name: (identifier) @name parameters: (parameters (identifier)* @params)) @fn "
Q_RET = "(return_statement (_)? @v) @ret "


def skeleton(r):
    inner_if = [A.let(A.var("t1"), A.var("a")), A.attrn(A.var("n"), A.attr("t", A.var("t1")))]
    for_body = [A.let(A.var("q"), A.var("p")), A.iff(([A.cond("bool", A.call("eq", A.call("source-text", A.var("q")), A.string("x")))], inner_if),
                                                     ([], [A.node(A.var("e1"))]))]
    scan_arm = [A.let(A.var("s0"), A.rcap(0)), A.forin("w", A.lst(A.var("s0"), A.string("k")), [A.node(A.var("wn"))])]
    body1 = [
        A.let(A.var("a"), A.call("source-text", A.cap("name"))),
        A.mut(A.var("m"), A.integer(1)),
        A.node(A.var("n")),
        A.forin("p", A.cap("params"), for_body),
        A.scan(A.var("a"), ("[a-z]+", scan_arm), ("\\d", [A.assign(A.var("m"), A.integer(2))])),
        A.let(A.var("l"), A.listc(A.call("node-type", A.var("y")), "y", A.cap("params"))),
        A.attrn(A.var("n"), A.attr("fn", A.cap("fn")), A.attr("g", A.var("GG"))),
    ]
    body2 = [
        A.node(A.var("r")),
        A.iff(([A.cond("some", A.cap("v"))], [A.attrn(A.var("r"), A.attr("v", A.cap("v")))]),
              ([A.cond("none", A.cap("v")), A.cond("bool", A.true())], [A.attrn(A.var("r"), A.attr("none"))])),
        A.let(A.var("o"), A.cap("v")),
        A.iff(([A.cond("some", A.var("o"))], [A.let(A.var("z"), A.cap("ret"))]), ([], [A.let(A.var("z"), A.cap("ret"))])),
    ]
    return A.file([A.stanza(Q_FN, body1), A.stanza(Q_RET, body2)], globals_=[A.glob("GG"), A.glob("GL", "star")])


def blocks(prog):
    """all statement lists of the file: (description, python list)"""
    out = []

    def walk(stmts, where):
        out.append((where, stmts))
        for i, st in enumerate(stmts):
            k = st["k"]
            if k == "if":
                for j, arm in enumerate(st["arms"]):
                    walk(arm["stmts"], where + "/if%d" % j)
            elif k == "for":
                walk(st["stmts"], where + "/for")
            elif k == "scan":
                for j, arm in enumerate(st["arms"]):
                    walk(arm["stmts"], where + "/scan%d" % j)
    for si, stz in enumerate(prog["stanzas"]):
        walk(stz["stmts"], "stanza%d" % si)
    return out


def catalogue():
    """fault name -> statements to insert (they bring their own set-up), or a file-level edit"""
    v, s, i = A.var, A.string, A.integer
    mv = [A.mut(v("fmv"), s("ab"))]
    mvl = [A.mut(v("fml"), A.lst(i(1)))]
    return {
        "undefined-local": [A.let(v("f1"), v("f_undefined"))],
        "out-of-scope-after-block": [A.iff(([A.cond("bool", A.true())], [A.let(v("f_inner"), i(1))])), A.let(v("f2"), v("f_inner"))],
        "out-of-scope-after-for": [A.forin("f_it", A.lst(i(1)), [A.node(v("f_n"))]), A.let(v("f2"), v("f_it"))],
        "redefinition": [A.let(v("f_d"), i(1)), A.let(v("f_d"), i(2))],
        "redefinition-node": [A.node(v("f_d")), A.mut(v("f_d"), i(2))],
        "set-immutable": [A.let(v("f_im"), i(1)), A.assign(v("f_im"), i(2))],
        "set-undefined": [A.assign(v("f_nope"), i(1))],
        "set-global": [A.assign(v("GG"), i(1))],
        "hide-global-let": [A.let(v("GG"), i(1))],
        "hide-global-for": [A.forin("GG", A.lst(i(1)), [A.node(v("f_n"))])],
        "hide-global-comprehension": [A.let(v("f_c"), A.listc(v("GG"), "GG", A.lst(i(1))))],
        "undefined-capture": [A.let(v("f_q"), A.cap("f_nocap"))],
        "scan-mutable": mv + [A.scan(v("fmv"), ("a", [A.node(v("f_n"))]))],
        "scan-let-chain": mv + [A.let(v("f_c1"), v("fmv")), A.let(v("f_c2"), v("f_c1")), A.scan(v("f_c2"), ("a", [A.node(v("f_n"))]))],
        "scan-call-of-mutable": mv + [A.scan(A.call("format", s("{}"), v("fmv")), ("a", [A.node(v("f_n"))]))],
        "scan-call-nonlocal-first-arg": mv + [A.scan(A.call("format", s("{}{}"), v("fmv"), s("k")), ("a", [A.node(v("f_n"))]))],
        "scan-call-nonlocal-middle-arg": mv + [A.scan(A.call("replace", v("fmv"), s("a"), s("b")), ("a", [A.node(v("f_n"))]))],
        "if-call-nonlocal-first-arg": mv + [A.iff(([A.cond("bool", A.call("eq", v("fmv"), s("ab")))], [A.node(v("f_n"))]))],
        "let-of-call-nonlocal-first-arg": mv + [A.let(v("f_k"), A.call("format", s("{}{}"), v("fmv"), s("z"))), A.scan(v("f_k"), ("a", [A.node(v("f_n"))]))],
        "for-list-of-call-nonlocal-first-arg": mv + [A.forin("f_x", A.lst(A.call("format", s("{}{}"), v("fmv"), s("z"))), [A.node(v("f_n"))])],
        # every parameter of a call is checked, also those after a non-local one
        "undefined-in-later-call-arg": mv + [A.let(v("f1"), A.call("format", s("{}{}"), v("fmv"), v("f_undefined")))],
        "undefined-after-scoped-call-arg": [A.let(v("f1"), A.call("plus", A.svar(A.cap("__ANYCAP__"), "f_sv"), v("f_undefined")))],
        "undefined-capture-in-later-call-arg": [A.let(v("f1"), A.call("format", s("{}{}"), A.svar(A.cap("__ANYCAP__"), "f_sv"), A.cap("f_nocap")))],
        "out-of-scope-in-later-call-arg": mv + [A.iff(([A.cond("bool", A.true())], [A.let(v("f_inner"), i(1))])), A.let(v("f2"), A.call("plus", v("fmv"), i(1), v("f_inner")))],
        "nested-call-undefined-after-nonlocal": mv + [A.let(v("f1"), A.lst(A.call("concat", A.lst(v("fmv")), A.call("concat", v("fmv"), A.lst(v("f_undefined"))))))],
        "var-used-before-later-set": [A.mut(v("f_l"), A.lst(i(1))), A.forin("f_o", A.lst(i(1), i(2)), [A.forin("f_x", v("f_l"), [A.node(v("f_n"))]), A.assign(v("f_l"), A.lst(i(3)))])],
        "scan-scoped": [A.scan(A.svar(A.cap("__ANYCAP__"), "f_sv"), ("a", [A.node(v("f_n"))]))],
        "if-mutable": [A.mut(v("f_b"), A.true()), A.iff(([A.cond("bool", v("f_b"))], [A.node(v("f_n"))]))],
        "if-second-condition-nonlocal": [A.mut(v("f_b"), A.true()), A.iff(([A.cond("bool", A.true()), A.cond("bool", v("f_b"))], [A.node(v("f_n"))]))],
        "elif-nonlocal": [A.mut(v("f_b"), A.true()), A.iff(([A.cond("bool", A.false())], [A.node(v("f_n"))]), ([A.cond("bool", v("f_b"))], [A.node(v("f_n2"))]))],
        "for-mutable": mvl + [A.forin("f_x", v("fml"), [A.node(v("f_n"))])],
        "for-list-literal-with-nonlocal": mv + [A.forin("f_x", A.lst(s("k"), v("fmv")), [A.node(v("f_n"))])],
        "for-after-set": [A.mut(v("f_l"), A.lst(i(1))), A.assign(v("f_l"), A.lst(i(2))), A.forin("f_x", v("f_l"), [A.node(v("f_n"))])],
        "comprehension-mutable": mvl + [A.let(v("f_c"), A.listc(v("f_y"), "f_y", v("fml")))],
        "set-comprehension-scoped": [A.let(v("f_c"), A.setc(v("f_y"), "f_y", A.svar(A.cap("__ANYCAP__"), "f_sv")))],
        "some-on-non-optional": [A.iff(([A.cond("some", s("x"))], [A.node(v("f_n"))]))],
        "none-on-list": [A.iff(([A.cond("none", A.lst())], [A.node(v("f_n"))]))],
        "some-on-call": [A.iff(([A.cond("some", A.call("is-null", A.null()))], [A.node(v("f_n"))]))],
        "for-over-non-list": [A.forin("f_x", i(1), [A.node(v("f_n"))])],
        "for-over-call": [A.forin("f_x", A.call("concat", A.lst(), A.lst()), [A.node(v("f_n"))])],
        "for-over-string-global": [A.forin("f_x", v("GG"), [A.node(v("f_n"))])],
        "comprehension-over-non-list": [A.let(v("f_c"), A.listc(v("f_y"), "f_y", s("x")))],
        "nullable-regex": [A.scan(s("aaa"), ("a*", [A.node(v("f_n"))]))],
        "nullable-regex-second-arm": [A.scan(s("aaa"), ("a", [A.node(v("f_n"))]), ("(b)?", [A.node(v("f_n2"))]))],
        "scan-outer-mutable-in-nested-block": mv + [A.iff(([A.cond("bool", A.true())], [A.scan(v("fmv"), ("a", [A.node(v("f_n"))]))]))],
        "if-outer-mutable-in-for-body": [A.mut(v("f_b"), A.true()), A.forin("f_o", A.lst(i(1)), [A.iff(([A.cond("bool", v("f_b"))], [A.node(v("f_n"))]))])],
        "for-outer-mutable-in-scan-arm": mvl + [A.scan(s("ab"), ("a", [A.forin("f_x", v("fml"), [A.node(v("f_n"))])]))],
        "some-on-scoped": [A.iff(([A.cond("some", A.svar(A.cap("__ANYCAP__"), "f_sv"))], [A.node(v("f_n"))]))],
        "none-on-call-of-scoped": [A.iff(([A.cond("none", A.call("is-null", A.svar(A.cap("__ANYCAP__"), "f_sv")))], [A.node(v("f_n"))]))],
        "some-on-mutable-string": mv + [A.iff(([A.cond("some", v("fmv"))], [A.node(v("f_n"))]))],
        # shadowing in a nested block: the inner declaration decides, whatever the outer one is
        "inner-nonlocal-shadows-outer-local": [A.let(v("f_s"), s("ab")), A.iff(([A.cond("bool", A.true())], [A.mut(v("f_s"), s("cd")), A.scan(v("f_s"), ("a", [A.node(v("f_n"))]))]))],
        "inner-single-shadows-outer-list": [A.let(v("f_s"), A.lst(i(1))), A.forin("f_o", A.lst(i(1)), [A.let(v("f_s"), i(1)), A.forin("f_x", v("f_s"), [A.node(v("f_n"))])])],
        # locations are counted in characters: the offending construct follows non-ASCII text on its line
        "undefined-after-non-ascii-name": [A.let(v("größe"), i(1)), A.let(v("höhe-é"), A.call("plus", v("größe"), v("f_undefined")))],
        "undefined-after-non-ascii-string": [A.let(v("f_t"), A.lst(s("中文é"), v("f_undefined")))],
        "hide-global-after-non-ascii": [A.iff(([A.cond("bool", A.call("eq", s("ключ"), s("é")))], [A.let(v("GG"), i(1))]))],
        # legal neighbours (must stay accepted): they look like faults but break no rule
        "ok-condition-names-with-keyword-prefix": [A.let(v("some-flag"), A.true()), A.let(v("none2"), A.false()), A.let(v("some1"), A.true()), A.let(v("none-of-them"), A.false()),
                                                   A.iff(([A.cond("bool", v("some-flag"))], [A.node(v("f_n"))]), ([A.cond("bool", v("none2"))], [A.node(v("f_n2"))]),
                                                         ([A.cond("bool", v("some1")), A.cond("bool", v("none-of-them"))], [A.node(v("f_n3"))]))],
        "ok-nested-for-over-loop-variable": [A.forin("f_g", A.lst(A.lst(i(1), i(2)), A.lst(i(3))), [A.forin("f_x", v("f_g"), [A.node(v("f_n"))]),
                                                                                                     A.let(v("f_c"), A.listc(v("f_y"), "f_y", v("f_g")))])],
        "ok-inner-local-shadows-outer-mutable": mv + [A.iff(([A.cond("bool", A.true())], [A.let(v("fmv"), s("abc")), A.scan(v("fmv"), ("a", [A.node(v("f_n"))]))]))],
        "ok-inner-list-shadows-outer-single": [A.let(v("f_s"), i(1)), A.forin("f_o", A.lst(i(1)), [A.let(v("f_s"), A.lst(i(1), i(2))), A.forin("f_x", v("f_s"), [A.node(v("f_n"))])])],
        "ok-shadow-in-nested-block": [A.let(v("f_s"), i(1)), A.iff(([A.cond("bool", A.true())], [A.let(v("f_s"), i(2))]))],
        "ok-for-over-list-global": [A.forin("f_x", v("GL"), [A.node(v("f_n"))])],
        "ok-scan-of-call-of-locals": [A.let(v("f_k"), s("ab")), A.scan(A.call("format", s("{}"), v("f_k")), ("a", [A.node(v("f_n"))]))],
        "ok-set-mutable-in-nested": [A.mut(v("f_m"), i(1)), A.iff(([A.cond("bool", A.true())], [A.assign(v("f_m"), i(2))]))],
        "ok-runtime-empty-regex": [A.scan(s("aaa"), ("\\b", [A.node(v("f_n"))]))],
    }


FILE_LEVEL = ["duplicate-global", "unused-capture", "underscore-capture-unused-ok", "capture-used-only-in-later-call-arg-ok", "plus-capture-as-list-ok", "capture-in-shorthand", "shorthand-ok",
              "capture-in-shorthand-direct", "capture-in-shorthand-set", "capture-in-shorthand-listc-elem", "capture-in-shorthand-listc-value",
              "capture-in-shorthand-setc-elem", "capture-in-shorthand-setc-value", "capture-in-shorthand-scope", "capture-in-shorthand-call",
              "capture-in-shorthand-nested", "capture-in-second-shorthand-attr"]


def apply_file_level(prog, name):
    if name == "duplicate-global":
        prog["globals"].append(A.glob("GG", "opt"))
    elif name == "unused-capture":
        prog["stanzas"].append(A.stanza("(identifier) @f_unused ", [A.node(A.var("f_n"))]))
    elif name == "capture-used-only-in-later-call-arg-ok":
        # the only use of the capture is a later parameter of a call whose first parameter is non-local
        prog["stanzas"].append(A.stanza("(identifier) @f_onlyuse ", [A.mut(A.var("f_m"), A.string("x")), A.let(A.var("f_k"), A.call("format", A.string("{}{}"), A.var("f_m"), A.cap("f_onlyuse")))]))
    elif name == "plus-capture-as-list-ok":
        # a `+` capture is a list like a `*` capture: comprehensions and loops over it (and over a variable holding it) are legal
        cs = A.cap("f_stmts")
        prog["stanzas"].append(A.stanza("(block (_)+ @f_stmts) @_f_b ", [A.let(A.var("f_l"), A.listc(A.call("node-type", A.var("f_x")), "f_x", cs)),
                                                                         A.let(A.var("f_s"), A.setc(A.var("f_x"), "f_x", cs)), A.let(A.var("f_v"), cs),
                                                                         A.let(A.var("f_l2"), A.listc(A.var("f_y"), "f_y", A.var("f_v"))),
                                                                         A.forin("f_z", cs, [A.node(A.var("f_n"))])]))
    elif name == "underscore-capture-unused-ok":
        prog["stanzas"].append(A.stanza("(identifier) @_f_unused ", [A.node(A.var("f_n"))]))
    elif name == "capture-in-shorthand":
        prog["shorthands"].append(A.shorthand("f_sh", "f_v", [A.attr("x", A.var("f_v")), A.attr("y", A.lst(A.string("k"), A.cap("name")))]))
    elif name.startswith("capture-in-shorthand-") or name == "capture-in-second-shorthand-attr":
        c, fv = A.cap("name"), A.var("f_v")
        body = {
            "capture-in-shorthand-direct": c,
            "capture-in-shorthand-set": A.st(A.integer(1), c),
            "capture-in-shorthand-listc-elem": A.listc(c, "f_y", fv),
            "capture-in-shorthand-listc-value": A.listc(A.var("f_y"), "f_y", c),
            "capture-in-shorthand-setc-elem": A.setc(c, "f_y", fv),
            "capture-in-shorthand-setc-value": A.setc(A.var("f_y"), "f_y", c),
            "capture-in-shorthand-scope": A.svar(c, "sv"),
            "capture-in-shorthand-call": A.call("format", A.string("{}"), c),
            "capture-in-shorthand-nested": A.lst(A.call("f", A.st(A.listc(A.svar(A.call("g", c), "x"), "f_y", fv)))),
            "capture-in-second-shorthand-attr": c,
        }[name]
        attrs = [A.attr("x", fv), A.attr("y", body)] if name == "capture-in-second-shorthand-attr" else [A.attr("y", body)]
        prog["shorthands"].append(A.shorthand("f_sh", "f_v", attrs))
    elif name == "shorthand-ok":
        prog["shorthands"].append(A.shorthand("f_sh", "f_v", [A.attr("x", A.var("f_v")), A.attr("y", A.var("not_checked"))]))


def subst_anycap(x, cap):
    if isinstance(x, dict):
        if x.get("k") == "cap" and x.get("name") == "__ANYCAP__":
            x["name"] = cap
        for v in x.values():
            subst_anycap(v, cap)
    elif isinstance(x, list):
        for v in x:
            subst_anycap(v, cap)


def make_cases(tier):
    r = A.rng(6)
    cases = []
    base = skeleton(r)
    cases.append(A.case("c06-skeleton", copy.deepcopy(base), 3, fault="none"))
    cat = catalogue()
    k = 0
    for fname, stmts in cat.items():
        nblocks = len(blocks(base))
        for bi in range(nblocks):
            prog0 = copy.deepcopy(base)
            where, lst = blocks(prog0)[bi]
            positions = range(len(lst) + 1) if tier == "thorough" else sorted(set([0, len(lst) // 2, len(lst)]))
            for pos in positions:
                prog = copy.deepcopy(base)
                w, l2 = blocks(prog)[bi]
                ins = copy.deepcopy(stmts)
                subst_anycap(ins, "name" if w.startswith("stanza0") else "ret")
                l2[pos:pos] = ins
                cases.append(A.case("c06-%d" % k, prog, 3, fault=fname, where="%s@%d" % (w, pos)))
                k += 1
    for name in FILE_LEVEL:
        prog = copy.deepcopy(base)
        apply_file_level(prog, name)
        cases.append(A.case("c06-file-%s" % name, prog, 3, fault=name, where="file"))
    # random accepted programs (must be accepted) and the same with one catalogue fault at a random block
    d = C.workdir("c06")
    raw = os.path.join(d, "gen.ndjson")
    n = 60 if tier == "quick" else 1500
    C.gen_cases(n, C.seed() * 1000 + 60, raw, "default")
    names = [f for f in cat if "__ANYCAP__" not in json.dumps(cat[f]) and "GG" not in json.dumps(cat[f]) and "GL" not in json.dumps(cat[f])]
    for c in C.read_ndjson(raw):
        if c["mode"] != "strict":
            continue
        cases.append(A.case("c06g-%s" % c["id"], c["prog"], c["src"], fault="none-random"))
        prog = copy.deepcopy(c["prog"])
        bl = blocks(prog)
        w, lst = r.choice(bl)
        fname = r.choice(names)
        pos = r.randint(0, len(lst))
        lst[pos:pos] = copy.deepcopy(cat[fname])
        cases.append(A.case("c06gf-%s" % c["id"], prog, c["src"], fault=fname, where="%s@%d" % (w, pos)))
    return cases


LOC_RE = re.compile(r"Location \{ row: (\d+), column: (\d+) \}")
RULE_MAP = {"UndefinedVariable-set": "Variable/UndefinedVariable", "CannotAssignImmutableVariable": "Variable/CannotAssignImmutableVariable",
            "VariableAlreadyDefined": "Variable/VariableAlreadyDefined"}


def real_verdict(outcome):
    if outcome["status"] != "load_err":
        return ("accepted", None, None)
    dbg = outcome["err"]["debug"]
    m = re.match(r"^Check\((\w+)\((\w+)?", dbg)
    if not m:
        return ("parse-error", dbg[:120], None)
    rule = m.group(1)
    if rule == "Variable":
        rule = "Variable/" + (m.group(2) or "")
    locs = LOC_RE.findall(dbg)
    loc = [int(locs[-1][0]), int(locs[-1][1])] if locs else None
    return ("rejected", rule, loc)


def run(tier):
    V = C.Verdicts(PROP, tier)
    d = C.workdir("c06")
    C.ensure_built()
    cases = [X.strip_nulls(c) for c in make_cases(tier)]
    for c in cases:
        c["load_only"] = True
    raw, out = os.path.join(d, "raw.ndjson"), os.path.join(d, "traces.ndjson")
    C.write_ndjson(raw, cases)
    st, code = C.run_cases(raw, out)
    if st != "ok":
        V.violation("batch", {"property": PROP, "detail": "the loader process %s" % st}, {"observed": "abort"})
        return V.finish("model_checking", {"states": 1, "transitions": 1, "traces_validated_against_impl": 0, "samples": cases[:1]}, [])
    done = C.read_ndjson(out)
    recs, stats, _ = C.tlc("MCChecker", "MCChecker.cfg", {"CASES": out}, "c06_mc", timeout=3000, mem="8g")
    if not C.tlc_ok(stats):
        raise C.ToolError("MCChecker failed: %s" % stats["errors"][:3])
    verdicts = {v["id"]: v for v in recs.get("VERDICT", [])}
    counts = {"accepted": 0, "rejected": 0, "by_rule": {}, "faults": {}}
    nontrivial = 0
    samples = []
    for c in done:
        v = verdicts.get(c["id"])
        if v is None or "outcome" not in c:
            continue
        kind, rule, loc = real_verdict(c["outcome"])
        fault = c.get("fault", "")
        payload = {"property": PROP, "dsl_text": c.get("text"), "fault": fault, "where": c.get("where"), "specification": v,
                   "loader": {"verdict": kind, "rule": rule, "loc": loc, "message": c["outcome"].get("err", {}).get("display")}, "case": {k: c[k] for k in c if k in ("id", "prog", "src", "mode", "dbg", "globals", "fault", "where")}}
        if kind == "parse-error":
            if fault.startswith("none") or fault.startswith("ok-") or fault in ("underscore-capture-unused-ok", "shorthand-ok", "capture-used-only-in-later-call-arg-ok", "plus-capture-as-list-ok"):
                # a file built to be valid (and written by the renderer that C07 checks) is refused before the rules are even looked at
                payload["detail"] = "breaks no static rule, but the loader rejects it with a parse error: %s" % rule
                V.violation(c["id"], payload, {"observed": "rejected-valid", "rule": "parse-error"})
                continue
            raise C.ToolError("generated file does not parse: %s\n%s" % (rule, c.get("text")))
        if c["outcome"]["status"] in ("load_panic",):
            payload["detail"] = "the loader panicked"
            V.violation(c["id"], payload, {"observed": "panic"})
            continue
        # generator sanity (OneFaultOneVerdict on the model side): faults are rejected by the specification, neighbours accepted
        if fault.startswith("none") or fault.startswith("ok-") or fault in ("underscore-capture-unused-ok", "shorthand-ok", "capture-used-only-in-later-call-arg-ok", "plus-capture-as-list-ok"):
            if not v["ok"] and fault in ("capture-used-only-in-later-call-arg-ok", "plus-capture-as-list-ok", "ok-inner-local-shadows-outer-mutable", "ok-inner-list-shadows-outer-single", "ok-condition-names-with-keyword-prefix", "ok-nested-for-over-loop-variable", "none", "ok-shadow-in-nested-block", "ok-for-over-list-global", "ok-scan-of-call-of-locals",
                                          "ok-set-mutable-in-nested", "ok-runtime-empty-regex", "underscore-capture-unused-ok", "shorthand-ok"):
                raise C.ToolError("the specification rejects a file built to be valid (%s): %s" % (fault, v))
        elif v["ok"] and not c["id"].startswith("c06gf"):
            raise C.ToolError("the specification accepts a file with injected fault %s at %s" % (fault, c.get("where")))
        if not fault.startswith("none"):
            nontrivial += 1
        counts["faults"][fault] = counts["faults"].get(fault, 0) + 1
        if v["ok"]:
            counts["accepted"] += 1
            if kind != "accepted":
                payload["detail"] = "breaks no static rule, but the loader rejects it: %s at %s" % (rule, loc)
                V.violation(c["id"], payload, {"observed": "rejected-valid", "rule": rule})
        else:
            counts["rejected"] += 1
            want_rule = RULE_MAP.get(v["rule"], v["rule"])
            counts["by_rule"][want_rule] = counts["by_rule"].get(want_rule, 0) + 1
            if kind == "accepted":
                payload["detail"] = "breaks the rule %s at %s, but the loader accepts it" % (want_rule, v["loc"])
                V.violation(c["id"], payload, {"observed": "accepted-invalid", "rule": want_rule})
            elif rule != want_rule or loc != list(v["loc"]):
                payload["detail"] = "the loader reports %s at %s; the broken rule is %s at %s" % (rule, loc, want_rule, v["loc"])
                V.violation(c["id"], payload, {"observed": "wrong-diagnostic", "rule": want_rule})
            if len(samples) < 3:
                samples.append({"fault": fault, "where": c.get("where"), "rule": want_rule, "loc": v["loc"], "dsl_text": c.get("text")})
    cov = {"states": stats["distinct"], "transitions": stats["states"], "traces_validated_against_impl": len(done),
           "samples": samples or [{"dsl_text": done[0].get("text")}], "evaluations": len(done), "distinct_nontrivial": nontrivial, "rule": RULE,
           "verdicts": counts}
    return V.finish("model_checking", cov, ["capture names / quantifiers of each stanza query are tree-sitter's; which regexes match the empty string is the regex crate's",
                                            "deviations D1, D2, D4 of the implementation are part of the specification (DESIGN section 3.7)"])


def replay(path):
    with open(path, encoding="utf-8") as f:
        rp = json.load(f)
    d = C.workdir("c06_replay")
    C.ensure_built()
    raw, out = os.path.join(d, "raw.ndjson"), os.path.join(d, "traces.ndjson")
    C.write_ndjson(raw, [X.strip_nulls(rp["case"])])
    C.run_cases(raw, out)
    done = C.read_ndjson(out)
    recs, stats, _ = C.tlc("MCChecker", "MCChecker.cfg", {"CASES": out}, "c06_replay", timeout=300)
    v = recs["VERDICT"][0]
    kind, rule, loc = real_verdict(done[0]["outcome"])
    print("specification:", v, "loader:", kind, rule, loc)
    bad = (v["ok"] != (kind == "accepted")) or (not v["ok"] and (rule != RULE_MAP.get(v["rule"], v["rule"]) or loc != list(v["loc"])))
    if bad:
        print("VIOLATION property=%s replay=%s" % (PROP, path))
        return 1
    return 0
