"""C14 JSON and pretty-printed output encode the graph faithfully and completely."""
import json
import os
import subprocess

import astgen as A
import common as C
import graphiso as G

PROP = "C14"
RULE = ("seeded random graphs built through the public API: 0-40 nodes, arbitrary edge sets (incl. self loops, dense nodes), 0-3 attributes "
        "per node and edge with names incl. non-ASCII and values of every variant nested to depth 3 (strings with quotes, backslashes, "
        "control and non-ASCII characters, syntax and graph node references); TLC computes the reference encoding Encode(g) and checks "
        "Decode(Encode(g)) = g, ascending edges and ids on the model, and the line structure of the pretty form; the real "
        "serde_json value, the re-parsed JSON text, the API projection and pretty_print() are compared; non-trivial = at least one "
        "attribute or edge")

NAMES = ["a", "kind", "é", "with space", "z-last", "A", "_u", "Kind", "Zeta", "B", "name", "alpha", "_private"]
STRINGS = ["", "plain", "q\"uote", "back\\slash", "new\nline", "tab\t", "é中", "\u0001ctl", "{}", "a b", "it's", "café", "nul\u0000", "cr\r"]


def rand_value(r, depth):
    k = r.randrange(9 if depth > 0 else 6)
    if k == 0:
        return A.vnull()
    if k == 1:
        return A.vbool(r.random() < 0.5)
    if k == 2:
        return A.vint(r.choice([0, 1, 65535, 65536, 4294967295, r.randrange(1000)]))
    if k == 3:
        return A.vstr(r.choice(STRINGS))
    if k == 4:
        return {"t": "syn", "n": r.randint(1, 12)}
    if k == 5:
        return {"t": "gn", "g": 0}
    if k <= 7:
        return A.vlist(*[rand_value(r, depth - 1) for _ in range(r.randint(0, 3))])
    elems, seen = [], set()
    for _ in range(r.randint(0, 3)):
        v = rand_value(r, depth - 1)
        key = json.dumps(v, sort_keys=True)
        if key not in seen:
            seen.add(key)
            elems.append(v)
    return {"t": "set", "e": elems}


def fix_gn(v, n, r):
    if v["t"] == "gn":
        v["g"] = r.randrange(n) if n else 0
    elif v["t"] == "list":
        for x in v["l"]:
            fix_gn(x, n, r)
    elif v["t"] == "set":
        for x in v["e"]:
            fix_gn(x, n, r)
        # re-deduplicate after renumbering
        seen, out = set(), []
        for x in v["e"]:
            k = json.dumps(x, sort_keys=True)
            if k not in seen:
                seen.add(k)
                out.append(x)
        v["e"] = out
    return v


def has_gn(v):
    return v["t"] == "gn" or (v["t"] == "list" and any(has_gn(x) for x in v["l"])) or (v["t"] == "set" and any(has_gn(x) for x in v["e"]))


def rand_attrs(r, n):
    out = {}
    for _ in range(r.choice([0, 0, 1, 2, 3, 5])):
        v = fix_gn(rand_value(r, 3), n, r)
        if n == 0 and has_gn(v):
            continue
        out[r.choice(NAMES)] = v
    return out


def rand_graph(r, gid):
    n = r.choice([0, 1, 2, 3, 5, 12, 40])
    nodes = []
    for i in range(n):
        dense = r.random() < 0.15
        sinks = sorted(set(r.randrange(n) for _ in range(r.randint(0, 12 if dense else 3))))
        nodes.append({"attrs": rand_attrs(r, n), "out": [{"sink": s, "attrs": rand_attrs(r, n)} for s in sinks]})
    return {"id": gid, "n": n, "nodes": nodes}


def spec_json_to_real(j):
    """TLC's Encode(g) -> the shape serde_json::to_value produces"""
    def val(v):
        t = v["type"]
        if t == "int":
            return {"type": "int", "int": v["hi"] * 65536 + v["lo"]}
        if t in ("list", "set"):
            vs = [val(x) for x in v["values"]]
            if t == "set":
                vs.sort(key=lambda x: json.dumps(x, sort_keys=True))
            return {"type": t, "values": vs}
        return v
    def attrs(m):
        return {} if isinstance(m, list) else {k: val(v) for k, v in m.items()}
    return [{"id": n["id"], "edges": [{"sink": e["sink"], "attrs": attrs(e["attrs"])} for e in n["edges"]], "attrs": attrs(n["attrs"])} for n in j]


def norm_real(j):
    def val(v):
        if isinstance(v, dict) and v.get("type") == "set":
            return {"type": "set", "values": sorted((val(x) for x in v["values"]), key=lambda x: json.dumps(x, sort_keys=True))}
        if isinstance(v, dict) and v.get("type") == "list":
            return {"type": "list", "values": [val(x) for x in v["values"]]}
        return v
    return [{"id": n["id"], "edges": [{"sink": e["sink"], "attrs": {k: val(v) for k, v in e["attrs"].items()}} for e in n["edges"]],
             "attrs": {k: val(v) for k, v in n["attrs"].items()}} for n in j]


# Rust's Debug rendering of the non-plain characters the pools use (std: `"` `\\` `\n` `\r` `\t` `\0` are backslash escapes, other
# control characters `\u{hex}`, the apostrophe and printable non-ASCII characters are written as they are)
ESCAPES = [['"', '\\"'], ["\\", "\\\\"], ["\n", "\\n"], ["\r", "\\r"], ["\t", "\\t"], ["\u0000", "\\0"], ["\u0001", "\\u{1}"],
           ["'", "'"], ["é", "é"], ["中", "中"], ["ü", "ü"], ["ß", "ß"]]


def esc_file(d):
    path = os.path.join(d, "esc.json")
    with open(path, "w", encoding="utf-8") as f:
        json.dump(ESCAPES, f, ensure_ascii=False)
    return path


def pretty_lines(p):
    lines = []
    def attrs(m):
        m = {} if isinstance(m, list) else m
        for k in sorted(m, key=lambda s: s.encode("utf-8")):
            lines.append(("attr", k, m[k]["text"] if m[k]["ok"] else None))
    for n in p:
        lines.append(("node", n["node"], None))
        attrs(n["attrs"])
        for e in n["edges"]:
            lines.append(("edge", n["node"], e["sink"]))
            attrs(e["attrs"])
    return lines


def check_pretty(text, expected):
    """compares the real pretty text with the expected line structure; returns a problem or None"""
    pos = 0
    for kind, a, b in expected:
        if kind == "node":
            want = "node %d\n" % a
        elif kind == "edge":
            want = "edge %d -> %d\n" % (a, b)
        else:
            want = "  %s: " % a if b is None else "  %s: %s\n" % (a, b)
        if not text.startswith(want, pos):
            return "at offset %d expected %r, found %r" % (pos, want, text[pos:pos + 60])
        pos += len(want)
        if kind == "attr" and b is None:
            # value not rendered by the specification: skip to the end of the (possibly escaped, single-line) value
            nl = text.find("\n", pos)
            if nl < 0:
                return "unterminated attribute line"
            pos = nl + 1
    if pos != len(text):
        return "unexpected extra output %r" % text[pos:pos + 60]
    return None


def run(tier):
    V = C.Verdicts(PROP, tier)
    d = C.workdir("c14")
    C.ensure_built()
    r = A.rng(14)
    n = 600 if tier == "quick" else 6000
    graphs = [rand_graph(r, "g%d" % k) for k in range(n)]
    gpath = os.path.join(d, "graphs.ndjson")
    C.write_ndjson(gpath, graphs)
    recs, stats, _ = C.tlc("MCJson", "MCJson.cfg", {"GRAPHS": gpath, "TREES": C.sources_json(), "ESC": esc_file(d)}, "c14_mc", timeout=3000, mem="8g")
    if not C.tlc_ok(stats):
        raise C.ToolError("MCJson failed: %s" % stats["errors"][:3])
    enc = {e["id"]: e for e in recs.get("ENC", [])}
    out = os.path.join(d, "real.ndjson")
    p = subprocess.run([C.TSGV, "jsonout", C.CORPUS_PY, gpath, out], stdout=subprocess.PIPE, stderr=subprocess.DEVNULL, text=True, timeout=3000)
    C.killed_from_outside(p.returncode)
    if p.returncode != 0:
        V.violation("process", {"property": PROP, "detail": "the serialising process died with status %d" % p.returncode}, {"observed": "abort"})
        real = {}
    else:
        real = {x["id"]: x["real"] for x in C.read_ndjson(out)}
    stats2 = {"graphs": 0, "json_compared": 0, "pretty_compared": 0, "values_not_rendered_by_spec": 0}
    nontrivial = 0
    for g in graphs:
        e, rr = enc.get(g["id"]), real.get(g["id"])
        if e is None or rr is None:
            continue
        stats2["graphs"] += 1
        if any(nd["attrs"] or nd["out"] for nd in g["nodes"]):
            nontrivial += 1
        payload = {"property": PROP, "graph": g, "observed": rr}
        if "panic" in rr:
            payload["detail"] = "serialisation panicked: " + rr["panic"]
            V.violation(g["id"], payload, {"observed": "panic", "msg": rr["panic"]})
            continue
        if not rr["valid"]:
            payload["detail"] = "the JSON text does not parse back to the serialised value"
            V.violation(g["id"] + "-valid", payload, {"observed": "invalid-json"})
        stats2["json_compared"] += 1
        want = spec_json_to_real(e["json"])
        got = norm_real(rr["json"])
        if json.dumps(want, sort_keys=True) != json.dumps(got, sort_keys=True):
            payload["detail"] = "JSON differs from the reference encoding"
            payload["expected_json"] = want
            V.violation(g["id"] + "-json", payload, {"observed": "json"})
        if not G.equal_exact({"n": g["n"], "nodes": g["nodes"]}, rr["api"]):
            payload["detail"] = "the in-memory API does not report the graph that was built"
            V.violation(g["id"] + "-api", payload, {"observed": "api"})
        stats2["pretty_compared"] += 1
        exp_lines = pretty_lines(e["pretty"])
        stats2["values_not_rendered_by_spec"] += sum(1 for k, a, b in exp_lines if k == "attr" and b is None)
        prob = check_pretty(rr["pretty"], exp_lines)
        if prob:
            payload["detail"] = "pretty-printed form: " + prob
            V.violation(g["id"] + "-pretty", payload, {"observed": "pretty"})
    cov = {"states": stats["distinct"], "transitions": stats["states"], "traces_validated_against_impl": stats2["graphs"],
           "samples": [graphs[3]], "evaluations": len(graphs), "distinct_nontrivial": nontrivial, "rule": RULE, "output": stats2}
    return V.finish("model_checking", cov, ["string escaping inside JSON text is serde_json's; Rust's Debug escaping of strings in the pretty form is "
                                            "checked for the characters of the ESCAPES table (others: line structure and name only)",
                                            "object key order in JSON is ignored (attribute maps are unordered by design)"])


def replay(path):
    with open(path, encoding="utf-8") as f:
        rp = json.load(f)
    d = C.workdir("c14_replay")
    C.ensure_built()
    gpath = os.path.join(d, "g.ndjson")
    C.write_ndjson(gpath, [rp["graph"]])
    recs, stats, _ = C.tlc("MCJson", "MCJson.cfg", {"GRAPHS": gpath, "TREES": C.sources_json(), "ESC": esc_file(d)}, "c14_replay", timeout=300)
    out = os.path.join(d, "r.ndjson")
    C.sh([C.TSGV, "jsonout", C.CORPUS_PY, gpath, out], timeout=60)
    rr = C.read_ndjson(out)[0]["real"]
    e = recs["ENC"][0]
    bad = "panic" in rr or json.dumps(spec_json_to_real(e["json"]), sort_keys=True) != json.dumps(norm_real(rr["json"]), sort_keys=True) \
        or check_pretty(rr["pretty"], pretty_lines(e["pretty"])) is not None
    if bad:
        print("VIOLATION property=%s replay=%s" % (PROP, path))
        return 1
    return 0
