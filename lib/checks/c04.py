"""C04 Scoped variables follow syntax-node identity and inherit only when declared."""
import json
import os

import astgen as A
import common as C
import execpipe as X

PROP = "C04"
RULE = ("seeded files of 2-6 stanzas that define scoped variables on captured nodes (values encoding the node) and read them through "
        "other captures, list elements, nested scopes (@a.b.c) with random inherit declarations, x corpus trees (same-range "
        "parent/child nodes, nesting, many nodes of one kind) x {strict, lazy}; expectation: TLA+ machine (node identity = preorder "
        "index); resolution facts (node, name, found-at) of the hooks must be facts of the machine; non-trivial = at least one "
        "scoped definition or lookup happened")

NAMES = ["a", "b", "c"]


def one_caps(q):
    return [c["name"] for c in q["caps"] if c["q"] == "one"]


def list_caps(q):
    return [c["name"] for c in q["caps"] if c["q"] in ("star", "plus")]


def value_for(r, capname):
    k = r.randrange(5)
    if k == 0:
        return A.call("source-text", A.cap(capname))
    if k == 1:
        return A.call("node-type", A.cap(capname))
    if k == 2:
        return A.cap(capname)
    if k == 3:
        return A.call("start-column", A.cap(capname))
    return A.call("node")


def use_all(q, used):
    return [A.let(A.var("u_" + c["name"].strip("_") + str(i)), A.cap(c["name"]))
            for i, c in enumerate(q["caps"]) if c["name"] not in used and not c["name"].startswith("_")]


def make_file(r, pool):
    n = r.randint(2, 6)
    stanzas = []
    related = [i for i, q in enumerate(pool) if one_caps(q)]
    chosen = []
    for i in range(n):
        if chosen and r.random() < 0.5:
            chosen.append(r.choice(chosen))
        else:
            chosen.append(r.choice(related))
    defined = {}      # (query index, capture) -> names defined there by earlier stanzas
    for i, qi in enumerate(chosen):
        q = pool[qi]
        ones, lists = one_caps(q), list_caps(q)
        used = set()
        stmts = []
        for _ in range(r.randint(1, 3)):
            kind = r.randrange(10)
            known = [(c, nm) for c in ones for nm in sorted(defined.get((qi, c), ()))]
            if kind <= 3:      # define
                c, name = r.choice(ones), r.choice(NAMES)
                if name in defined.get((qi, c), ()) and r.random() < 0.85:
                    continue
                used.add(c)
                defined.setdefault((qi, c), set()).add(name)
                if r.random() < 0.3:
                    stmts.append(A.node(A.svar(A.cap(c), name)))
                else:
                    stmts.append(A.let(A.svar(A.cap(c), name), value_for(r, c)))
            elif kind <= 6:    # read into a probe node
                if known and r.random() < 0.8:
                    c, name = r.choice(known)
                else:
                    c, name = r.choice(ones), r.choice(NAMES)
                used.add(c)
                v = "p%d_%d" % (i, len(stmts))
                stmts.append(A.node(A.var(v)))
                stmts.append(A.attrn(A.var(v), A.attr("got", A.svar(A.cap(c), name)), A.attr("on", A.cap(c))))
            elif kind == 7 and lists:   # read on list elements
                lc = r.choice(lists)
                used.add(lc)
                name = r.choice(NAMES)
                v = "q%d_%d" % (i, len(stmts))
                stmts.append(A.forin("x", A.cap(lc), [A.node(A.var(v)), A.attrn(A.var(v), A.attr("got", A.svar(A.var("x"), name)))]))
            elif kind == 8:    # nested scope: define a syntax-node valued variable, read through it
                c, other = r.choice(ones), r.choice(ones)
                if "ref" in defined.get((qi, c), ()):
                    continue
                used.add(c)
                used.add(other)
                defined.setdefault((qi, c), set()).add("ref")
                stmts.append(A.let(A.svar(A.cap(c), "ref"), A.cap(other)))
            else:              # read through a reference
                refs = [c for c in ones if "ref" in defined.get((qi, c), ())]
                if not refs:
                    continue
                c = r.choice(refs)
                used.add(c)
                name = r.choice(NAMES)
                v = "r%d_%d" % (i, len(stmts))
                stmts.append(A.node(A.var(v)))
                stmts.append(A.attrn(A.var(v), A.attr("got", A.svar(A.svar(A.cap(c), "ref"), name))))
        stmts += use_all(q, used)
        stanzas.append(A.stanza(q["q"], stmts))
    inherit = [x for x in NAMES + ["ref"] if r.random() < 0.35]
    return A.file(stanzas, inherit=inherit)


# ---- shaped files: inheritance chains (outer / middle / inner definitions in every order) and same-range parent/child nodes
OUTER = [("(module) @m ", "m")]
MIDDLE = [("(function_definition) @fn ", "fn"), ("(class_definition) @cls ", "cls"), ("(block) @blk ", "blk"), ("(if_statement) @ifs ", "ifs"),
          ("(for_statement) @fors ", "fors"), ("(call) @cl ", "cl"), ("(assignment) @asg ", "asg"), ("(expression_statement) @es ", "es")]
INNER = [("(identifier) @id ", "id"), ("(integer) @lit ", "lit"), ("(return_statement) @ret ", "ret"), ("(pass_statement) @ps ", "ps"), ("(attribute) @attrx ", "attrx")]
SAME_RANGE = [("(expression_statement (_) @e) @s ", "s", "e"), ("(block (_) @only) @blk2 ", "blk2", "only"), ("(module (_) @top) @mod ", "mod", "top"),
              ("(argument_list (_) @arg) @al ", "al", "arg"), ("(parenthesized_expression (_) @in) @par ", "par", "in")]
CHAIN_SOURCES = [2, 3, 5, 6, 7, 8, 9, 11, 14, 15, 17]


def def_stanza(q, cap, name, tag):
    return A.stanza(q, [A.let(A.svar(A.cap(cap), name), A.call("format", A.string(tag + ":{}:{}"), A.call("node-type", A.cap(cap)), A.call("start-column", A.cap(cap))))])


def read_stanza(q, cap, name, k):
    v = "rd%d" % k
    return A.stanza(q, [A.node(A.var(v)), A.attrn(A.var(v), A.attr("at", A.cap(cap)), A.attr("round", A.integer(k)), A.attr("got", A.svar(A.cap(cap), name)))])


_NESTS = None


def nests():
    """(source index, middle kind, inner kind) such that some node of the inner kind has a proper ancestor of the middle kind
    (which is not the root) in that corpus tree; and same-range (parent kind, child kind) pairs -- from the oracle's tree tables"""
    global _NESTS
    if _NESTS is None:
        with open(C.sources_json(), encoding="utf-8") as f:
            trees = json.load(f)
        chains, same = [], []
        for si, t in enumerate(trees):
            ns = t["nodes"]
            seen_c, seen_s = set(), set()
            for i, n in enumerate(ns):
                if not n["named"] or n["err"] or n["miss"]:
                    continue
                p = n["parent"]
                if p and ns[p - 1]["named"] and (ns[p - 1]["sb"], ns[p - 1]["eb"]) == (n["sb"], n["eb"]) and ns[p - 1]["parent"]:
                    seen_s.add((ns[p - 1]["kind"], n["kind"]))
                a = p
                while a:
                    an = ns[a - 1]
                    if an["parent"] and an["named"] and an["kind"] != n["kind"] and an["kind"] not in ("ERROR",):
                        seen_c.add((an["kind"], n["kind"]))
                    a = an["parent"]
            chains += [(si + 1, m, i) for (m, i) in sorted(seen_c)]
            same += [(si + 1, pk, ck) for (pk, ck) in sorted(seen_s)]
        _NESTS = (chains, same)
    return _NESTS


def chain_file(r):
    """outer (module) / middle / inner definitions and reads of one inherited name, in the orders that matter:
    a read before and after a nearer definition appears, in both directions"""
    name = r.choice(NAMES)
    src, mk, ik = r.choice(nests()[0])
    o, m, i = ("(module) @m ", "m"), ("(%s) @mid " % mk, "mid"), ("(%s) @inn " % ik, "inn")
    steps = [("def", o), ("read", i), ("def", m), ("read", i)]
    k = r.randrange(6)
    if k == 1:
        steps = [("def", m), ("read", i), ("def", o), ("read", i)]
    elif k == 2:
        steps = [("read", i), ("def", m), ("def", o), ("read", i), ("read", m)]
    elif k == 4:        # an unrelated scoped variable on the middle node must not stop the search for the inherited one
        steps = [("def", o), ("defother", m), ("read", i)] + ([("read", m)] if r.random() < 0.5 else [])
    elif k == 3:        # every definition before every read (order-insensitive): root only, or root and middle
        steps = [("def", o)] + ([("def", m)] if r.random() < 0.5 else []) + [("read", i), ("read", m)]
    if r.random() < 0.3:
        steps.insert(r.randrange(len(steps)), ("read", m))
    if r.random() < 0.15:
        r.shuffle(steps)
    stanzas = []
    for j, (what, (q, cap)) in enumerate(steps):
        if what == "def":
            stanzas.append(def_stanza(q, cap, name, "L%d" % j))
        elif what == "defother":
            stanzas.append(def_stanza(q, cap, "zz_other", "O%d" % j))
        else:
            stanzas.append(read_stanza(q, cap, name, j))
    return A.file(stanzas, inherit=[name] if r.random() < 0.85 else []), src


def computed_scope_file(r):
    """the same scoped variable defined on one node twice, once through a capture and once through a computed scope
    (local alias, a variable holding the node, a list element, a nested scope): always a duplicate"""
    name = r.choice(NAMES)
    src, pk, ck = r.choice(nests()[1] + [(s_, m_, i_) for (s_, m_, i_) in nests()[0]][:40])
    q = "(%s) @nd " % ck
    direct = A.stanza(q, [A.let(A.svar(A.cap("nd"), name), A.string("direct"))])
    how = r.randrange(4)
    if how == 0:
        other = A.stanza(q, [A.let(A.var("alias"), A.cap("nd")), A.let(A.svar(A.var("alias"), name), A.string("alias"))])
    elif how == 1:
        other = A.stanza(q, [A.forin("el", A.lst(A.cap("nd")), [A.let(A.svar(A.var("el"), name), A.string("element"))])])
    elif how == 2:
        other = A.stanza(q, [A.let(A.svar(A.cap("nd"), "selfref"), A.cap("nd")), A.let(A.svar(A.svar(A.cap("nd"), "selfref"), name), A.string("nested"))])
    else:
        other = A.stanza("(%s (%s) @kid) @_par " % (pk, ck), [A.let(A.var("alias"), A.cap("kid")), A.let(A.svar(A.var("alias"), name), A.string("kid"))])
    stz = [direct, other] if r.random() < 0.5 else [other, direct]
    if r.random() < 0.3:      # control: different names, no duplicate
        stz[1]["stmts"][-1] = json.loads(json.dumps(stz[1]["stmts"][-1]).replace('"name": "%s"' % name, '"name": "%s_x"' % name))
    return A.file(stz), src


def same_range_file(r):
    name = r.choice(NAMES)
    src, pk, ck = r.choice(nests()[1])
    q, parent, child = "(%s (%s) @chd) @par " % (pk, ck), "par", "chd"
    order = r.randrange(4)
    st = []
    if order == 0:      # defined on the child, read from the parent
        st = [A.stanza(q, [A.let(A.svar(A.cap(child), name), A.string("on-child")), A.let(A.var("u"), A.cap(parent))]),
              A.stanza(q, [A.node(A.var("n")), A.attrn(A.var("n"), A.attr("got", A.svar(A.cap(parent), name))), A.let(A.var("u"), A.cap(child))])]
    elif order == 1:    # defined on the parent, read from the child
        st = [A.stanza(q, [A.let(A.svar(A.cap(parent), name), A.string("on-parent")), A.let(A.var("u"), A.cap(child))]),
              A.stanza(q, [A.node(A.var("n")), A.attrn(A.var("n"), A.attr("got", A.svar(A.cap(child), name))), A.let(A.var("u"), A.cap(parent))])]
    elif order == 2:    # defined on both, read both
        st = [A.stanza(q, [A.let(A.svar(A.cap(parent), name), A.string("on-parent")), A.let(A.svar(A.cap(child), name), A.string("on-child"))]),
              A.stanza(q, [A.node(A.var("n")), A.attrn(A.var("n"), A.attr("p", A.svar(A.cap(parent), name)), A.attr("c", A.svar(A.cap(child), name)))])]
    else:               # defined on the child; read from the module root (never an ancestor-or-self of ... the child's parent chain only)
        st = [A.stanza(q, [A.let(A.svar(A.cap(child), name), A.string("on-child")), A.let(A.var("u"), A.cap(parent))]),
              A.stanza("(module) @m ", [A.node(A.var("n")), A.attrn(A.var("n"), A.attr("got", A.svar(A.cap("m"), name)))])]
    return A.file(st, inherit=[name] if r.random() < 0.7 else []), src


def collection_files():
    """scoped variables read inside comprehensions, loops and literals over several nodes of which some lack the variable (the
    run fails - no element is dropped), and scopes that are lists of nodes (never a valid scope, whatever their length)"""
    v, c, i, s = A.var, A.cap, A.integer, A.string
    blk = "(module (_)* @xs) @m "
    define_some = A.stanza("(expression_statement) @s ", [A.let(A.svar(c("s"), "name"), A.call("source-text", c("s")))])
    define_all = A.stanza("(module (_) @s) ", [A.let(A.svar(c("s"), "name"), A.call("node-type", c("s")))])
    readers = {
        "listc": A.listc(A.svar(v("x"), "name"), "x", c("xs")),
        "setc": A.setc(A.svar(v("x"), "name"), "x", c("xs")),
        "listc-call": A.listc(A.call("format", s("<{}>"), A.svar(v("x"), "name")), "x", c("xs")),
        "listc-bad-elem": A.listc(A.call("plus", v("x"), i(1)), "x", A.lst(i(1), s("two"), i(3))),
        "setc-bad-elem": A.setc(A.call("plus", v("x"), i(1)), "x", A.lst(i(1), s("two"), i(3))),
        "set-literal-bad-elem": A.st(i(1), A.call("eq", i(1), s("a"))),
        "list-literal-bad-elem": A.lst(i(1), A.call("no-such-function", i(1))),
    }
    files = []
    for name, e in readers.items():
        for defs in (define_some, define_all):
            files.append((name, A.file([defs, A.stanza(blk, [A.node(A.svar(c("m"), "n")), A.attrn(A.svar(c("m"), "n"), A.attr("names", e)), A.let(v("u2"), c("xs"))])])))
            files.append((name + "-unused", A.file([defs, A.stanza(blk, [A.let(v("unused"), e), A.node(A.svar(c("m"), "n")), A.let(v("u2"), c("xs"))])])))
    # a list of nodes as scope: 0, 1 or several nodes
    for q in ("(module (pass_statement)* @xs) @m ", "(module (expression_statement)* @xs) @m ", "(module (_)+ @xs) @m "):
        files.append(("list-scope-define", A.file([A.stanza(q, [A.let(A.svar(c("xs"), "v"), i(1)), A.node(A.svar(c("m"), "n"))])])))
        files.append(("list-scope-read", A.file([A.stanza(q, [A.node(A.svar(c("m"), "n")), A.attrn(A.svar(c("m"), "n"), A.attr("r", A.svar(c("xs"), "v")))])])))
    return files


def duplicate_files():
    """a name defined once on most nodes and a second time on some of them - by a stanza with a predicate, or through another
    pattern that reaches the same node later (so that other nodes' definitions are processed in between): always a duplicate"""
    c, s = A.cap, A.string
    q_id = "(identifier) @id "
    files = []
    for pred in ('(#match? @id "^[a-c]$")', '(#eq? @id "x")', '(#match? @id "^[f-z]")'):
        files.append(A.file([A.stanza(q_id, [A.let(A.svar(c("id"), "v"), s("first"))]),
                             A.stanza("((identifier) @id %s) " % pred, [A.let(A.svar(c("id"), "v"), s("second"))]),
                             A.stanza(q_id, [A.node(A.var("n")), A.attrn(A.var("n"), A.attr("v", A.svar(c("id"), "v")))])]))
    for q2, cap in (("(call function: (identifier) @f) ", "f"), ("(assignment left: (identifier) @f) ", "f"), ("(function_definition name: (identifier) @f) ", "f")):
        files.append(A.file([A.stanza(q_id, [A.let(A.svar(c("id"), "v"), s("first"))]),
                             A.stanza(q2, [A.let(A.svar(c(cap), "v"), s("second"))])]))
        files.append(A.file([A.stanza(q2, [A.let(A.svar(c(cap), "v"), s("second"))]),
                             A.stanza(q_id, [A.let(A.svar(c("id"), "v"), s("first"))]),
                             A.stanza(q_id, [A.node(A.var("n")), A.attrn(A.var("n"), A.attr("v", A.svar(c("id"), "v")))])]))
    return files


def identity_files():
    """two different syntax nodes of the same kind that start at the same position (`f()()`, `a.b.c`, `a + b + c`): they are
    different values everywhere - in comparisons, in sets, as attribute values that conflict"""
    v, c, i = A.var, A.cap, A.integer
    files = []
    for q in ("(call function: (call) @inner) @outer ", "(attribute object: (attribute) @inner) @outer ",
              "(binary_operator left: (binary_operator) @inner) @outer ", "(subscript value: (subscript) @inner) @outer "):
        files.append(A.file([A.stanza(q, [A.node(v("n")), A.attrn(v("n"), A.attr("same", A.call("eq", c("inner"), c("outer"))), A.attr("self", A.call("eq", c("inner"), c("inner"))),
                                                                 A.attr("both", A.st(c("inner"), c("outer"))), A.attr("pair", A.lst(c("outer"), c("inner"))),
                                                                 A.attr("in-list", A.call("eq", A.lst(c("inner")), A.lst(c("outer")))))])]))
        files.append(A.file([A.stanza(q, [A.node(v("n")), A.attrn(v("n"), A.attr("a", c("inner"))), A.attrn(v("n"), A.attr("a", c("outer")))])]))
        files.append(A.file([A.stanza(q, [A.node(v("n")), A.attrn(v("n"), A.attr("a", c("inner"))), A.attrn(v("n"), A.attr("a", c("inner"))),
                                          A.let(A.svar(c("inner"), "v"), i(1)), A.let(A.svar(c("outer"), "v"), i(2)),
                                          A.attrn(v("n"), A.attr("vi", A.svar(c("inner"), "v")), A.attr("vo", A.svar(c("outer"), "v")))])]))
    # null is a value like any other: assigning it again is accepted, another value conflicts - in either order
    files.append(A.file([A.stanza("(module) @_m ", [A.node(v("n")), A.attrn(v("n"), A.attr("k", A.null())), A.attrn(v("n"), A.attr("k", A.null()))])]))
    files.append(A.file([A.stanza("(module) @_m ", [A.node(v("n")), A.attrn(v("n"), A.attr("k", A.null())), A.attrn(v("n"), A.attr("k", i(1)))])]))
    files.append(A.file([A.stanza("(module) @_m ", [A.node(v("n")), A.attrn(v("n"), A.attr("k", i(1))), A.attrn(v("n"), A.attr("k", A.null()))])]))
    files.append(A.file([A.stanza("(function_definition name: (identifier) @nm return_type: (_)? @rt) ", [A.node(A.svar(c("nm"), "n")), A.attrn(A.svar(c("nm"), "n"), A.attr("rt", c("rt")))]),
                         A.stanza("(function_definition name: (identifier) @nm return_type: (_)? @rt) ", [A.attrn(A.svar(c("nm"), "n"), A.attr("rt", c("rt")))])]))
    return files


def collection_cases(prefix):
    cases = []
    names = A.source_names()
    nest = [j + 1 for j, nm in enumerate(names) if any(k in nm for k in ("s13_", "s17i_", "s02_"))]
    for k, f in enumerate(identity_files()):
        for src in nest:
            cases += A.both_modes("%s-ident-%d-%d" % (prefix, k, src), f, src)
    for k, f in enumerate(duplicate_files()):
        for src in (2, 3, 7, 9, 17, 20):
            cases += A.both_modes("%s-dupl-%d-%d" % (prefix, k, src), f, src)
    for k, (name, f) in enumerate(collection_files()):
        for src in (1, 2, 6, 8):
            cases += A.both_modes("%s-coll-%d-%d" % (prefix, k, src), f, src)
    return cases


def shaped_cases(tier, prefix="c04s"):
    r = A.rng(44)
    n = 90 if tier == "quick" else 2000
    cases = collection_cases(prefix)
    for k in range(n):
        prog, src = (chain_file(r) if k % 4 in (1, 2) else same_range_file(r)) if k % 4 else computed_scope_file(r)
        cases += A.both_modes("%s-%d" % (prefix, k), prog, src)
    return cases


def make_cases(tier):
    pool = A.query_pool()
    nsrc = A.n_sources()
    r = A.rng(4)
    cases = []
    n = 120 if tier == "quick" else 3000
    for k in range(n):
        prog = make_file(r, pool)
        cases += A.both_modes("c04-%d" % k, prog, r.randint(1, nsrc))
    return cases + shaped_cases(tier)


def judge(run):
    V = run.V
    stats = {"lookups": 0, "definitions": 0, "cases_with_scoped": 0}
    for case, res, cl in run.classified:
        o = case.get("outcome")
        if not o or res is None or res["status"] == "unsupported" or o.get("truncated"):
            continue
        ev = case.get("events") or []
        real = set((e["node"], e["name"], e["at"]) for e in ev if e.get("e") == "sget")
        spec = set((f["node"], f["name"], f["at"]) for f in res.get("facts", []))
        ndef = sum(1 for e in ev if e.get("e") in ("sadd", "sdef"))
        stats["lookups"] += len(real)
        stats["definitions"] += ndef
        if real or ndef:
            stats["cases_with_scoped"] += 1
        extra = real - spec
        if extra:
            payload = X.replay_payload(PROP, case, res, cl)
            payload["detail"] = "scoped lookups resolved as (node, name, found-at) %s are not resolutions the specification derives (its facts: %s)" % (
                sorted(extra)[:5], sorted(spec)[:10])
            V.violation(case["id"] + "-facts", payload, {"observed": "resolution-facts"})
    return stats


def run(tier):
    run = X.ExecRun(PROP, tier)
    run.add_cases("c04", make_cases(tier))
    run.classify_all()
    stats = judge(run)
    cov = run.coverage(RULE, {"scoped": stats})
    cov["distinct_nontrivial"] = min(cov["distinct_nontrivial"], stats["cases_with_scoped"])
    return run.V.finish("model_checking", cov, X.TRUSTED + [
        "node identity in the specification is the preorder index; the code keys by tree-sitter's node id truncated to 32 bits "
        "(a collision cannot be provoked on demand)"])


def replay(path):
    def j(run):
        judge(run)
        return 1 if run.V.violations else 0
    return X.replay_generic(PROP, path, judge=j)
