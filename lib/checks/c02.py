"""C02 Strict and lazy evaluation agree on every order-insensitive program."""
import json
import os

import common as C
import execpipe as X
import graphiso as G

PROP = "C02"
RULE = ("pairs (strict, lazy) of the same seeded random program, tree and globals; membership in the order-insensitive "
        "fragment is decided by the TLA+ predicate InFragment plus the machine's record of graph-node numbers rendered as "
        "text; non-trivial = in the fragment and at least one statement executed")

# failure classes that do not depend on evaluation order (property text)
ORDER_INDEPENDENT = {"ExpectedBoolean", "ExpectedInteger", "ExpectedString", "ExpectedList", "ExpectedGraphNode",
                     "ExpectedSyntaxNode", "DuplicateAttribute", "DuplicateVariable", "FunctionFailed", "InvalidParameters",
                     "UndefinedFunction", "UndefinedRegexCapture", "InvalidVariableScope"}


def pair_up(run):
    pairs = {}
    for case in run.cases:
        cid = case.get("id", "")
        for mode in ("strict", "lazy"):
            if cid.endswith("-" + mode):
                pairs.setdefault(cid[: -len(mode) - 1], {})[mode] = case
    return pairs


def judge_pairs(run, V):
    """the property itself, on the model (spec vs spec) and on the implementation (real vs real)"""
    stats = {"pairs": 0, "in_fragment": 0, "strict_ok": 0, "strict_err_oi": 0, "model_checked": 0}
    for key, p in sorted(pair_up(run).items()):
        if "strict" not in p or "lazy" not in p:
            continue
        cs, cl = p["strict"], p["lazy"]
        rs, rl = run.results.get(cs["id"]), run.results.get(cl["id"])
        if rs is None or rl is None or "outcome" not in cs or "outcome" not in cl:
            continue
        stats["pairs"] += 1
        if "unsupported" in (rs["status"], rl["status"]):
            continue
        if not rs["frag"] or rs["gntext"] or rl["gntext"]:
            continue
        stats["in_fragment"] += 1
        os_, ol = cs["outcome"], cl["outcome"]
        # --- on the model: the two machines agree (a failure here means the model or the fragment is wrong: tool error)
        if rs["status"] == "ok":
            stats["model_checked"] += 1
            if rl["status"] != "ok" or G.isomorphic(G.from_spec(rs["g"]), G.from_spec(rl["g"])) is False:
                raise C.ToolError("model-level disagreement of the strict and lazy machines inside the fragment on %s "
                                  "(strict ok, lazy %s %s)" % (key, rl["status"], rl.get("kind")))
        elif rs["status"] == "err" and rs["kind"] in ORDER_INDEPENDENT:
            stats["model_checked"] += 1
            if rl["status"] != "err":
                raise C.ToolError("model-level disagreement inside the fragment on %s (strict err %s, lazy %s)" % (key, rs["kind"], rl["status"]))
        # --- on the implementation
        payload = {"property": PROP, "pair": key, "dsl_text": cs.get("text"), "source": cs.get("src"), "globals": cs.get("globals"),
                   "strict": os_, "lazy": ol,
                   "cases": [{k: c[k] for k in c if k not in ("events", "retab", "matches", "lorder", "outcome")} for c in (cs, cl)]}
        if os_["status"] == "ok":
            stats["strict_ok"] += 1
            if ol["status"] != "ok":
                payload["detail"] = "strict succeeds, lazy: %s %s" % (ol["status"], ol.get("err", {}).get("kind", ol.get("msg", "")))
                V.violation(key + "-pair", payload, {"observed": ol["status"], "pair": "strict_ok", "kind": ol.get("err", {}).get("kind", ""), "msg": ol.get("msg", "")})
            else:
                iso = G.isomorphic(os_["graph"], ol["graph"])
                if iso is False:
                    payload["detail"] = "strict and lazy graphs are not isomorphic"
                    V.violation(key + "-pair", payload, {"observed": "ok", "pair": "graphs_differ"})
        elif os_["status"] == "err" and os_["err"]["kind"] in ORDER_INDEPENDENT:
            stats["strict_err_oi"] += 1
            if ol["status"] not in ("err",):
                payload["detail"] = "strict fails with %s (order-independent), lazy: %s" % (os_["err"]["kind"], ol["status"])
                V.violation(key + "-pair", payload, {"observed": ol["status"], "pair": "strict_err", "msg": ol.get("msg", "")})
    return stats


def shaped_cases(tier):
    """conditions: every condition of an arm is evaluated, in both modes (an error in a later condition is an error even
    when an earlier one is false); scan groups that do not participate in the match"""
    import astgen as A
    r = A.rng(22)
    false_conds = [A.cond("bool", A.false()), A.cond("bool", A.call("eq", A.integer(1), A.integer(2))), A.cond("some", A.cap("v")),
                   A.cond("bool", A.call("not", A.true())), A.cond("bool", A.call("is-null", A.cap("ret")))]
    true_conds = [A.cond("bool", A.true()), A.cond("none", A.cap("v")), A.cond("bool", A.call("eq", A.string("a"), A.string("a")))]
    # (a condition that allocates a graph node when it is evaluated: skipping it changes the graph, not only the outcome)
    true_conds.append(A.cond("bool", A.call("eq", A.lst(A.call("node")), A.lst(A.call("node")))) if False else A.cond("bool", A.call("not", A.call("is-null", A.call("node")))))
    bad_conds = [A.cond("bool", A.call("not", A.integer(1))), A.cond("bool", A.call("eq", A.string("a"), A.integer(1))), A.cond("bool", A.call("no-such-function")),
                 A.cond("bool", A.call("eq", A.call("source-text", A.cap("v")), A.string("x"))), A.cond("bool", A.integer(3)), A.cond("bool", A.call("and", A.true(), A.null()))]
    cases = []
    n = 40 if tier == "quick" else 600
    for k in range(n):
        arms = []
        for j in range(r.randint(1, 3)):
            conds = [r.choice(false_conds + true_conds) for _ in range(r.randint(1, 2))]
            if r.random() < 0.6:
                conds.insert(r.randint(1, len(conds)), r.choice(bad_conds))
            arms.append((conds, [A.node(A.var("a%d" % j))]))
        if r.random() < 0.4:
            arms.append(([], [A.node(A.var("e"))]))
        stmts = [A.node(A.var("n")), A.let(A.var("u1"), A.cap("v")), A.let(A.var("u2"), A.cap("ret")), A.iff(*arms), A.attrn(A.var("n"), A.attr("after", A.true()))]
        if r.random() < 0.5:
            re_, subj = r.choice([("(a)|(b)", "ab"), ("x(y)?(z)", "xz"), ("(\\d)?([a-z])", "q7"), ("(?:(k)=)?(v)", "v;k=v")])
            stmts.append(A.scan(A.string(subj), (re_.replace("\\\\", "\\"), [A.node(A.var("g")), A.attrn(A.var("g"), A.attr("g0", A.rcap(0)), A.attr("g1", A.rcap(1)), A.attr("g2", A.rcap(2)))])))
        if r.random() < 0.4:
            # arms anchored at the start of what is left: they miss first and match in a later round
            a1, a2, subj = r.choice([("^a", "b", "ba"), ("^[a-z]+", "_", "__init__"), ("\\bfoo", "\\W", "-foo foo"), ("^x", "[^x]", "yyxx"), ("[a-z]+", "\\b", "ab"), ("[a-z]", "\\b", "ab cd")])
            a1, a2 = a1.replace("\\\\", "\\"), a2.replace("\\\\", "\\")
            stmts.append(A.scan(A.string(subj), (a1, [A.node(A.var("h1")), A.attrn(A.var("h1"), A.attr("anch", A.rcap(0)))]),
                                (a2, [A.node(A.var("h2")), A.attrn(A.var("h2"), A.attr("other", A.rcap(0)))])))
        prog = A.file([A.stanza("(return_statement (_)? @v) @ret ", stmts)])
        cases += A.both_modes("c02s-%d" % k, prog, r.choice([3, 11]))      # sources with return statements
    # a group beyond the groups of the arm's regular expression is an execution error in both modes (F2: lazy mode indexed out of bounds)
    for k, (re_, subj, g) in enumerate([("(a)|(b)", "ab", 2), ("[a-z]+", "ab cd", 0), ("x(y)?", "xyx", 1)]):
        for extra in (1, 5):
            stmts = [A.node(A.var("n")), A.scan(A.string(subj), (re_, [A.attrn(A.var("n"), A.attr("ok", A.rcap(g)), A.attr("bad", A.rcap(g + extra)))]))]
            cases += A.both_modes("c02g-%d-%d" % (k, extra), A.file([A.stanza("(module) @_m ", stmts)]), 3)
    return cases


def unused_cases(tier):
    """variables that never reach the graph: their values are evaluated all the same (strict: at once; lazy: at the end), wherever
    they stand relative to the variables that are used - before, between or after them, in the same stanza or a later match"""
    import astgen as A
    v, i, s = A.var, A.integer, A.string
    spare_values = {"node": A.call("node"), "bad-plus": A.call("plus", i(1), s("x")), "unknown-fn": A.call("no-such-function", i(1)),
                    "fine": A.call("plus", i(1), i(2)), "list-of-node": A.lst(A.call("node"), i(1)), "nested-bad": A.lst(A.call("not", i(3)))}
    cases = []
    k = 0
    for name, val in spare_values.items():
        for pos in ("before", "between", "after", "next-stanza", "in-loop"):
            used = [A.let(v("x"), A.call("source-text", A.cap("id"))), A.node(v("n")), A.attrn(v("n"), A.attr("t", v("x")))]
            spare = A.let(v("spare"), json.loads(json.dumps(val)))
            if pos == "before":
                st = [spare] + used
            elif pos == "between":
                st = used[:1] + [spare] + used[1:]
            elif pos == "in-loop":
                st = used + [A.forin("it", A.lst(i(1), i(2)), [A.let(v("sp2"), json.loads(json.dumps(val)))])]
            else:
                st = used + [spare]
            stanzas = [A.stanza("(identifier) @id ", st)]
            if pos == "next-stanza":
                stanzas = [A.stanza("(identifier) @id ", used), A.stanza("(module) @_m ", [spare, A.let(v("late"), i(1)), A.node(v("m")), A.attrn(v("m"), A.attr("l", v("late")))])]
            cases += A.both_modes("c02u-%d" % k, A.file(stanzas), 2 + k % 2)
            k += 1
    return cases


def rejected_or_agree_cases():
    """files that break the locality rules of the checker: they are rejected at load time (and then not judged); were they accepted,
    strict and lazy would have to agree all the same"""
    import astgen as A
    v, c, i = A.var, A.cap, A.integer
    flags = A.stanza("(module (_) @ch) ", [A.let(A.svar(c("ch"), "flag"), A.true())])
    loop1 = A.stanza("(module (_)* @stmts) @_m ", [A.mut(v("seen"), A.false()), A.forin("s", c("stmts"), [A.iff(([A.cond("bool", v("seen"))], [A.node(v("k"))])),
                                                                                                   A.assign(v("seen"), A.svar(v("s"), "flag"))])])
    loop2 = A.stanza("(module (_)* @stmts) @_m ", [A.mut(v("txt"), A.string("ab")), A.forin("s", c("stmts"), [A.scan(v("txt"), ("a", [A.node(v("k"))])),
                                                                                                   A.assign(v("txt"), A.svar(v("s"), "name"))])])
    names = A.stanza("(module (_) @ch) ", [A.let(A.svar(c("ch"), "name"), A.call("node-type", c("ch")))])
    cases = []
    loop3 = A.stanza("(module (_)* @stmts) @_m ", [A.mut(v("lst"), A.lst(i(1))), A.forin("s", c("stmts"), [A.forin("e", v("lst"), [A.node(v("k"))]),
                                                                                                A.assign(v("lst"), A.lst(A.svar(v("s"), "flag")))])])
    cases = []
    # several blocks, each with its own loop; the flags of a later block's statements are defined after the first block was looped over
    blk_src = 1 + next(j for j, nm in enumerate(A.source_names()) if "s17j_" in nm)
    defs = A.stanza("(expression_statement) @s ", [A.let(A.svar(c("s"), "flag"), A.true())])
    bloop = A.stanza("(block (expression_statement)* @stmts) ", [A.node(v("n")), A.mut(v("seen"), A.false()),
                                                                A.forin("s", c("stmts"), [A.iff(([A.cond("bool", v("seen"))], [A.attrn(v("n"), A.attr("several", A.true()))])),
                                                                                          A.assign(v("seen"), A.svar(v("s"), "flag"))])])
    cases += A.both_modes("c02r-blocks", A.file([defs, bloop]), blk_src)
    # (definitions first: in this order strict mode succeeds, so lazy mode must, too)
    for k, st in enumerate([[flags, loop1], [names, loop2], [flags, loop3]]):
        for src in (2, 5, 7):
            cases += A.both_modes("c02r-%d-%d" % (k, src), A.file(st), src)
    return cases


def judge_rejected(V):
    """runs the files of rejected_or_agree_cases directly (no machine: the specification rejects them); if the loader accepts one,
    the two modes must still agree on success"""
    d = C.workdir("c02_rejected")
    raw, out = os.path.join(d, "raw.ndjson"), os.path.join(d, "out.ndjson")
    C.write_ndjson(raw, [X.strip_nulls(c) for c in rejected_or_agree_cases()])
    st, _ = C.run_cases(raw, out)
    if st != "ok":
        V.violation("c02r-crash", {"property": PROP, "detail": "executing files that break the locality rules made the process " + st}, {"observed": "abort"})
        return 0
    done = {c["id"]: c for c in C.read_ndjson(out)}
    n = 0
    for cid, c in sorted(done.items()):
        if not cid.endswith("-strict"):
            continue
        l = done.get(cid[:-7] + "-lazy")
        os_, ol = c.get("outcome", {}), (l or {}).get("outcome", {})
        if os_.get("status") in (None, "load_err") or ol.get("status") in (None, "load_err"):
            continue
        n += 1
        if os_["status"] == "ok" and ol["status"] != "ok":
            V.violation(cid[:-7] + "-pair", {"property": PROP, "dsl_text": c.get("text"), "source": c.get("src"), "strict": os_, "lazy": ol,
                                             "detail": "the file was accepted; strict execution succeeds, lazy execution %s: %s" % (ol["status"], ol.get("err", {}).get("display", ol.get("msg", ""))[:300])},
                        {"observed": ol["status"], "expected": "ok", "kind": ol.get("err", {}).get("kind", "")})
    return n


def shorthand_cases(tier):
    import astgen as A
    r = A.rng(23)
    cases = []
    for k in range(12 if tier == "quick" else 200):
        sh = [A.shorthand("inner", "iv", [A.attr("i1", A.var("iv")), A.attr("i2", A.call("format", A.string("<{}>"), A.var("iv")))]),
              A.shorthand("outer", "ov", [A.attr("inner", A.var("ov")), A.attr("o1", A.var("ov"))])]
        if r.random() < 0.5:
            sh.append(A.shorthand("outermost", "xv", [A.attr("outer", A.call("format", A.string("{}!"), A.var("xv"))), A.attr("x1")]))
        use = r.choice(["outer", "outermost"] if len(sh) == 3 else ["outer"])
        stmts = [A.node(A.var("n")), A.attrn(A.var("n"), A.attr(use, A.call("source-text", A.cap("id"))), A.attr("plain", A.integer(k)))]
        if r.random() < 0.5:
            stmts += [A.edge(A.var("n"), A.var("n")), A.attre(A.var("n"), A.var("n"), A.attr(use, A.string("e")))]
        prog = A.file([A.stanza("(identifier) @id ", stmts)], shorthands=sh)
        cases += A.both_modes("c02h-%d" % k, prog, r.choice([2, 3, 9]))
    return cases


def run(tier):
    run = X.ExecRun(PROP, tier)
    d = C.workdir("c02")
    n = 100 if tier == "quick" else 2500
    for k, (profile, cnt) in enumerate([("default", n), ("deep", n // 3), ("noisy", n // 3)]):
        raw = os.path.join(d, "raw_%s.ndjson" % profile)
        C.gen_cases(cnt, C.seed() * 1000 + 20 + k, raw, profile)
        run.add_batch("c02_" + profile, raw)
    run.add_cases("c02_shaped", shaped_cases(tier))
    # inheritance chains / same-range nodes (from the scoped-variable check) and nested attribute shorthands, both modes
    import checks.c04 as c04
    run.add_cases("c02_scoped", c04.shaped_cases(tier, "c02c"))
    run.add_cases("c02_shorthands", shorthand_cases(tier))
    run.add_cases("c02_unused", unused_cases(tier))
    accepted_rejects = judge_rejected(run.V)
    # design level: TLC enumerates programs itself and checks StrictLazyAgree (with isomorphism decided inside TLA+) on the machines;
    # the enumerated programs are then replayed into the library (spec -> code)
    import mcexec
    progs, mstats, t = mcexec.run(tier, "c02_mcexec")
    rr = __import__("astgen").rng(2)
    sample = progs if tier == "thorough" and len(progs) < 8000 else rr.sample(progs, min(len(progs), 150 if tier == "quick" else 8000))
    run.add_cases("c02_enum", mcexec.cases(sample, t, "c02e"))
    wprogs, wstats, wt = mcexec.run(tier, "c02_mcexec_wide", wide=True)
    wsample = wprogs if tier == "thorough" and len(wprogs) < 8000 else rr.sample(wprogs, min(len(wprogs), 150 if tier == "quick" else 8000))
    run.add_cases("c02_enum_wide", mcexec.cases(wsample, wt, "c02w"))
    progs = progs + wprogs
    sample = list(sample) + list(wsample)
    mstats["distinct"] += wstats["distinct"]
    mstats["states"] += wstats["states"]
    run.states += mstats["distinct"]
    run.trans += mstats["states"]
    # each mode against its own machine: only crashes are reported here (the rest is C01's business)
    run.classify_all(panic_only=True)
    stats = judge_pairs(run, run.V)
    cov = run.coverage(RULE, {"pairs": stats, "mcexec": {"programs_enumerated": len(progs), "in_fragment": sum(1 for p in progs if p["frag"]),
                                                         "strict_ok": sum(1 for p in progs if p["strict"] == "ok"),
                                                         "distinct_states": mstats["distinct"], "replayed": len(sample), "exhaustive": True}})
    cov["distinct_nontrivial"] = min(cov["distinct_nontrivial"], 2 * stats["in_fragment"])
    return run.V.finish("model_checking", cov, X.TRUSTED + [
        "membership in the fragment: TSGStatic!InFragment (static) and the machines' gntext flag (dynamic)"])


def replay(path):
    return X.replay_generic(PROP, path, judge=lambda run: 1 if (judge_pairs(run, run.V) and run.V.violations) else 0)
