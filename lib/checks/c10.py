"""C10 scan runs arms for the leftmost match, earlier arm first, and always advances."""
import json
import os

import astgen as A
import common as C
import execpipe as X

PROP = "C10"
RULE = ("TLC enumerates every arm list (1..MaxArms arms over the regex pool: classes, alternation, groups, optional groups, $ anchors, "
        "\\b, multi-byte literals, nullable regexes) x every subject of the pool (small alphabet incl. non-ASCII), checks on the model "
        "that the scan loop of the interpreters' machine performs exactly the sequence the reference defines, always advances and "
        "terminates; every behaviour is replayed into the real library in both modes (one node per iteration recording sequence "
        "number, arm and $0..$n) and, with nested scans added, validated step by step against the machine; non-trivial = subject "
        "non-empty")

REGEXES_Q = ["^a", "a", "[a-z]+", "/", "(a)|(b)", "x(y)?", "[^/]+", "b$", "é", "(\\w)(\\w)?", "\\b\\w", "a*", "\\b", "(a|ab)(c)?", "中+"]
REGEXES_T = REGEXES_Q + ["^[a-z]+", "\\bab", "[ab]+/?", "$", "(x)|(xy)", "\\s", "(?:a)(b)?", "[^a]"]
SUBJECTS = ["", "a", "ba", "ab", "a/b", "aab/", "xyx", "é/中", "b a", "abcab", "//", "中中a", "xy.x", "abc"]


def program_for(arms, subj, ngroups, nested=None):
    arm_list = []
    for i, re in enumerate(arms):
        attrs = [A.attr("seq", A.var("cnt")), A.attr("arm", A.integer(i + 1))]
        for g in range(ngroups[re]):
            attrs.append(A.attr("g%d" % g, A.rcap(g)))
        stmts = [A.node(A.var("n")), A.attrn(A.var("n"), *attrs), A.assign(A.var("cnt"), A.call("plus", A.var("cnt"), A.integer(1)))]
        if nested and ngroups[re] > 1:
            # nested scan over a group; afterwards the outer groups must be visible again
            inner = [A.node(A.var("m")), A.attrn(A.var("m"), A.attr("inner", A.rcap(0)), A.attr("of", A.var("n")))]
            stmts.append(A.scan(A.rcap(1), (nested, inner)))
            stmts.append(A.attrn(A.var("n"), A.attr("after", A.rcap(0))))
        arm_list.append((re, stmts))
    return A.file([A.stanza("(module) @_m ", [A.mut(A.var("cnt"), A.integer(0)), A.scan(A.string(subj), *arm_list)])])


def observed_sequence(graph):
    rows = []
    for nd in graph["nodes"]:
        a = nd["attrs"]
        if "seq" not in a:
            continue
        gs = []
        k = 0
        while "g%d" % k in a:
            gs.append(a["g%d" % k]["s"])
            k += 1
        rows.append((a["seq"]["hi"] * 65536 + a["seq"]["lo"], a["arm"]["hi"] * 65536 + a["arm"]["lo"], gs))
    rows.sort()
    return [(arm, gs) for (_, arm, gs) in rows]


def run(tier):
    run = X.ExecRun(PROP, tier)
    V = run.V
    d = C.workdir("c10")
    C.ensure_built()
    regexes = REGEXES_Q if tier == "quick" else REGEXES_T
    pool_path = os.path.join(d, "pool.json")
    with open(pool_path, "w", encoding="utf-8") as f:
        json.dump({"regexes": regexes, "subjects": SUBJECTS}, f, ensure_ascii=False)
    tabs_path = os.path.join(d, "tables.json")
    C.sh([C.TSGV, "retabs", pool_path, tabs_path], timeout=300)
    with open(tabs_path, encoding="utf-8") as f:
        pool = json.load(f)
    info = {r["re"]: r for r in pool["regexes"]}
    ngroups = {r["re"]: r["ngroups"] for r in pool["regexes"]}
    # ---- design-level model checking: exhaustive over arm lists x subjects
    cfg = "MCScan.cfg" if tier == "quick" else "MCScan3.cfg"
    recs, stats, text = C.tlc("MCScan", cfg, {"TABLES": tabs_path}, "c10_mc", timeout=3000, coverage=True)
    if not C.tlc_ok(stats):
        raise C.ToolError("MCScan failed: %s" % stats["errors"][:3])
    behaviours = recs.get("REPLAY", [])
    run.states += stats["distinct"]
    run.trans += stats["states"]
    # ---- spec -> code: replay behaviours into the library
    r = A.rng(10)
    if tier == "quick" and len(behaviours) > 450:
        r.shuffle(behaviours)
        behaviours = behaviours[:450]
    elif len(behaviours) > 12000:
        r.shuffle(behaviours)
        behaviours = behaviours[:12000]
    cases = []
    expect = {}
    for k, b in enumerate(behaviours):
        prog = program_for(b["arms"], b["subj"], ngroups)
        for c in A.both_modes("c10-%d" % k, prog, 1):
            cases.append(c)
            expect[c["id"]] = b
    # nested scans (validated against the machine only)
    nest_n = 40 if tier == "quick" else 600
    for k in range(nest_n):
        arms = [r.choice([x for x in regexes if not info[x]["nullable"]]) for _ in range(r.randint(1, 3))]
        inner = r.choice([x for x in regexes if not info[x]["nullable"]])
        prog = program_for(arms, r.choice(SUBJECTS), ngroups, nested=inner)
        cases += A.both_modes("c10n-%d" % k, prog, 1)
    # `$k` names group k of the arm's own regex: beyond its groups it is an error, also inside a nested scan whose enclosing
    # arm has more groups (validated against the machine, and the run must fail when such an arm is executed)
    beyond = {}
    bk = 0
    for re_, subj in [("a", "a"), ("(a)|(b)", "ab"), ("x(y)?", "xyx"), ("(\\w)(\\w)?", "abc"), ("[a-z]+", "ab cd")]:
        re_ = re_.replace("\\\\", "\\")
        if re_ not in ngroups:
            continue
        g = ngroups[re_]
        for extra in (1, 2, 7):
            stmts = [A.node(A.var("n")), A.attrn(A.var("n"), A.attr("ok", A.rcap(g)), A.attr("bad", A.rcap(g + extra)))]
            prog = A.file([A.stanza("(module) @_m ", [A.scan(A.string(subj), (re_, stmts))])])
            for c in A.both_modes("c10x-%d" % bk, prog, 1):
                beyond[c["id"]] = True
                cases.append(c)
            bk += 1
        inner = [A.node(A.var("m")), A.attrn(A.var("m"), A.attr("outer-group", A.rcap(g + 1)))]
        if g >= 1:
            prog = A.file([A.stanza("(module) @_m ", [A.scan(A.string(subj), (re_, [A.scan(A.rcap(0), ("[a-z]", inner))]))])])
            for c in A.both_modes("c10x-%d" % bk, prog, 1):
                beyond[c["id"]] = True
                cases.append(c)
            bk += 1
    run.add_cases("c10", cases)
    run.classify_all()
    for case, res, cl in run.classified:
        if beyond.get(case.get("id")) and case.get("outcome", {}).get("status") == "ok":
            payload = X.replay_payload(PROP, case, res, cl)
            payload["detail"] = "an arm reads a capture group beyond the groups of its own regular expression and the run succeeds"
            V.violation(case["id"] + "-beyond", payload, {"observed": "ok", "scan": "group-beyond"})
    stats2 = {"behaviours": len(behaviours), "replayed": 0, "rejected_nullable": 0, "runtime_empty": 0, "iterations": 0}
    nontrivial = 0
    for case, res, cl in run.classified:
        b = expect.get(case["id"])
        if b is None or "outcome" not in case:
            continue
        o = case["outcome"]
        stats2["replayed"] += 1
        if b["subj"]:
            nontrivial += 1
        payload = X.replay_payload(PROP, case, res, cl)
        payload["behaviour"] = b
        if any(info[a]["nullable"] for a in b["arms"]):
            stats2["rejected_nullable"] += 1
            if o["status"] != "load_err" or "Nullable" not in o["err"]["debug"]:
                payload["detail"] = "an arm's regex matches the empty string but the file was not rejected with NullableRegex (%s)" % o["status"]
                V.violation(case["id"] + "-nullable", payload, {"observed": o["status"], "scan": "nullable"})
            continue
        if o["status"] in ("panic", "abort", "load_err"):
            if o["status"] == "load_err":
                payload["detail"] = "file unexpectedly rejected: " + o["err"]["display"]
                V.violation(case["id"] + "-load", payload, {"observed": "load_err"})
            continue
        if b["status"] == "err":
            stats2["runtime_empty"] += 1
            if o["status"] != "err":
                payload["detail"] = "an empty match must raise an error at run time; library: %s" % o["status"]
                V.violation(case["id"] + "-empty", payload, {"observed": o["status"], "scan": "empty"})
            continue
        if o["status"] != "ok":
            payload["detail"] = "scan failed: %s" % json.dumps(o.get("err", {}))[:200]
            V.violation(case["id"] + "-fail", payload, {"observed": o["status"], "scan": "fail"})
            continue
        want = [(h["arm"], list(h["g"])) for h in b["hist"]]
        got = observed_sequence(o["graph"])
        stats2["iterations"] += len(want)
        if got != want:
            payload["detail"] = "iterations (arm, groups) performed %s, reference sequence %s" % (got[:8], want[:8])
            V.violation(case["id"] + "-seq", payload, {"observed": "sequence"})
    cov = run.coverage(RULE, {"scan": stats2, "mc": {"config": cfg, "distinct_states": stats["distinct"], "depth": stats["depth"],
                                                      "coverage": stats["coverage"]}, "exhaustive": True})
    cov["distinct_nontrivial"] = nontrivial
    return V.finish("model_checking", cov, X.TRUSTED + ["single-regex matching on a suffix is the regex crate's (tables); the loop is specified"])


def replay(path):
    return X.replay_generic(PROP, path)
