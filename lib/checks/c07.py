"""C07 Parsing recovers exactly the written program and its source locations."""
import copy
import json
import os
import re
import subprocess

import astgen as A
import common as C
import execpipe as X

PROP = "C07"
RULE = ("ASTs covering every statement and expression form (hand-written incl. identifiers that begin with keywords, nesting to depth 5, "
        "trailing commas, multi-byte characters in strings; plus seeded random programs); for each AST the TLA+ renderer TSGSyntax "
        "produces the canonical text, every single-gap variation (each gap x each element of the layout pool: space, tab, newline, "
        "spaces, `;` comment with multi-byte characters, nothing where tokens cannot merge) and pseudo-random full layouts, and computes "
        "every location by folding rows/columns over the rendered characters; each text is parsed by the real parser (without the "
        "checker), the public AST is walked into the same shape and compared field by field, all locations included; in the other "
        "direction the harness' own renderer with random layouts is checked the same way; non-trivial = every text")

STMT_KINDS = {"let", "var", "set", "node", "edge", "attrn", "attre", "print", "scan", "if", "for"}


class Tagger:
    def __init__(self):
        self.n = 0
        self.nraw = 0
        self.ntrail = 0

    def tag(self):
        self.n += 1
        return self.n

    def file(self, f):
        for g in f["globals"]:
            g["loc"] = self.tag()
        for s in f["shorthands"]:
            s["loc"] = self.tag()
            s["var"]["loc"] = self.tag()
            for a in s["attrs"]:
                self.expr(a["value"])
        for st in f["stanzas"]:
            st["loc"] = self.tag()
            self.stmts(st["stmts"])

    def stmts(self, ss):
        for s in ss:
            self.stmt(s)

    def stmt(self, s):
        s["loc"] = self.tag()
        k = s["k"]
        if k in ("let", "var", "set"):
            self.expr(s["var"])
            self.expr(s["value"])
        elif k == "node":
            self.expr(s["var"])
        elif k == "edge":
            self.expr(s["src"])
            self.expr(s["dst"])
        elif k == "attrn":
            self.expr(s["node"])
            for a in s["attrs"]:
                self.expr(a["value"])
        elif k == "attre":
            self.expr(s["src"])
            self.expr(s["dst"])
            for a in s["attrs"]:
                self.expr(a["value"])
        elif k == "print":
            for v in s["values"]:
                self.expr(v)
        elif k == "scan":
            self.expr(s["value"])
            for arm in s["arms"]:
                arm["loc"] = self.tag()
                self.stmts(arm["stmts"])
        elif k == "if":
            for arm in s["arms"]:
                arm["loc"] = self.tag()
                for c in arm["conds"]:
                    c["loc"] = self.tag()
                    self.expr(c["value"])
                self.stmts(arm["stmts"])
        elif k == "for":
            s["var"]["loc"] = self.tag()
            self.expr(s["value"])
            self.stmts(s["stmts"])

    def expr(self, e):
        k = e["k"]
        if k in ("list", "set"):
            if "trail" not in e:
                # every third non-empty literal is written with a trailing comma (whatever its length)
                self.ntrail += 1 if e["elems"] else 0
                e["trail"] = bool(e["elems"]) and self.ntrail % 3 == 0
            for x in e["elems"]:
                self.expr(x)
        elif k in ("listc", "setc"):
            e["loc"] = self.tag()
            e["var"]["loc"] = self.tag()
            self.expr(e["elem"])
            self.expr(e["value"])
        elif k == "cap":
            e["loc"] = self.tag()
        elif k == "var":
            e["loc"] = self.tag()
        elif k == "svar":
            self.expr(e["scope"])
            e["loc"] = self.tag()
        elif k == "call":
            for x in e["args"]:
                self.expr(x)
        elif k == "str":
            # every other literal that holds a line break or a tab is written over several lines / with the tab as it is
            if "raw" not in e:
                self.nraw += 1 if ("\n" in e["v"] or "\t" in e["v"]) else 0
                e["raw"] = ("\n" in e["v"] or "\t" in e["v"]) and self.nraw % 2 == 1


def substitute(x, pos):
    """replaces integer loc tags by [row, col]; drops rendering-only fields"""
    if isinstance(x, dict):
        out = {}
        for k, v in x.items():
            if k in ("bare", "trail", "raw"):
                continue
            if k == "loc":
                out[k] = pos[v] if isinstance(v, int) else v
            elif k == "qtext":
                out["caps"] = sorted(set(n for n in re.findall(r"@([A-Za-z_][\w-]*)", re.sub(r'"(?:\\.|[^"\\])*"', '""', v))))
            else:
                out[k] = substitute(v, pos)
        return out
    if isinstance(x, list):
        return [substitute(v, pos) for v in x]
    return x


def normalize_walked(ast):
    ast = copy.deepcopy(ast)
    return ast


def hand_asts():
    v, s, i, c = A.var, A.string, A.integer, A.cap
    kw = ["something", "none_left", "format", "inner", "letter", "nodes", "elsewhere", "iffy", "forx", "scanner", "settle", "variant", "edgecase",
          "attrs", "printer", "elifx", "in-side", "some", "none", "ifx", "global-ish", "inherited", "attribute-x",
          "none2", "some9", "some-flag", "none-x", "some_", "none-", "somé", "none中", "some2thing"]
    files = []
    # 1: keyword-prefixed identifiers everywhere an identifier can occur
    stm = []
    for k in kw:
        stm.append(A.let(v(k), s("v-" + k)))
    stm.append(A.iff(([A.cond("bool", v("something"))], [A.node(v("nodes2"))]), ([A.cond("bool", v("none_left")), A.cond("some", v("some"))], [A.node(v("n3"))]),
                     ([], [A.node(v("elsewhere2"))])))
    for k in kw:
        if (k.startswith("some") or k.startswith("none")) and k not in ("some", "none"):    # the bare words are the keywords themselves
            stm.append(A.iff(([A.cond("bool", v(k))], [A.node(v("c_" + k))]), ([A.cond("bool", A.true()), A.cond("bool", v(k))], [])))
    stm.append(A.forin("inner2", v("forx"), [A.node(v("n4"))]))
    stm.append(A.scan(v("scanner"), ("a", [A.let(v("letter2"), A.rcap(0))])))
    stm.append(A.attrn(v("nodes"), A.attr("format", v("format")), A.attr("in"), A.attr("if", i(1)), A.attr("some")))
    stm.append(A.let(c("m"), v("settle"))) if False else None
    stm.append(A.let(v("u"), c("m")))
    files.append(A.file([A.stanza("(module) @m ", stm)], globals_=[A.glob("globalx"), A.glob("inheritx", "star"), A.glob("attributex", "opt", None), A.glob("dflt", "one", "a\"b\\c\nd\te")],
                        inherit=["inner", "some"], shorthands=[A.shorthand("letx", "varx", [A.attr("a", v("varx")), A.attr("b")])]))
    # 2: every expression form, nested to depth 5, trailing commas, multi-byte strings
    deep = A.lst(A.st(A.lst(A.st(A.lst(i(1), s("é中 ; not a comment")), i(2)), s("")), A.call("f", A.call("g", A.call("h", A.lst())))), A.null(), A.true(), A.false())
    deep["trail"] = True
    deep["elems"][0]["trail"] = True
    exprs = [s("l1\nl2\n\n  l4"), s("l1\nl2"), s("t\tb\n"), deep, i(0), i(4294967295), s("q\"uote \\ back\nnl\ttab\rcr"), A.lst(), A.st(), A.st(i(1), i(2), i(1)), A.st(A.call("node"), A.call("node"), A.null(), A.null()), A.lst(i(1), i(1)), A.lst(i(1)), A.st(s("x")), dict(A.lst(i(1)), trail=True), dict(A.st(s("x")), trail=True),
             dict(A.lst(dict(A.lst(c("m")), trail=True), dict(A.st(i(2)), trail=True)), trail=True),
             A.listc(A.call("plus", v("x"), i(1)), "x", A.lst(i(1), i(2))), A.setc(A.svar(v("y"), "a"), "y", A.listc(v("z"), "z", c("xs"))),
             A.svar(A.svar(A.svar(c("m"), "a"), "b"), "c"), A.svar(A.call("f", c("m")), "d"), A.svar(A.lst(c("m")), "weird"),
             A.call("no-args"), A.call("f", A.rcap(0), A.rcap(12), c("m"), v("v"), s("s"), i(7), A.null())]
    st2 = [A.let(v("e%d" % k), e) for k, e in enumerate(exprs)]
    st2 += [A.mut(A.svar(c("m"), "mv"), i(1)), A.assign(A.svar(c("m"), "mv"), i(2)), A.node(A.svar(c("m"), "n")), A.edge(A.svar(c("m"), "n"), A.call("node")),
            A.edge(A.call("node"), v("e1")), A.edge(A.lst(), A.null()),
            A.attre(A.svar(c("m"), "n"), v("e1"), A.attr("w", i(1)), A.attr("bare"), A.attr("x", A.lst(i(1)))),
            A.attre(A.call("node"), A.call("node"), A.attr("only")),
            A.prnt(s("text"), v("e1"), A.call("f"), i(3)), A.prnt(c("xs"))]
    files.append(A.file([A.stanza("(module (_)* @xs) @m ", st2)]))
    # 3: control structures nested to depth 5
    lvl = [A.node(v("deep"))]
    for d, kind in enumerate(["if", "for", "scan", "if", "for"]):
        if kind == "if":
            lvl = [A.iff(([A.cond("some", c("o")), A.cond("bool", A.call("eq", i(d), i(d)))], lvl), ([A.cond("none", c("o"))], [A.node(v("a%d" % d))]), ([], [A.node(v("b%d" % d))]))]
        elif kind == "for":
            lvl = [A.forin("it%d" % d, A.lst(i(1), i(2)), lvl + [A.let(v("after%d" % d), i(d))])]
        else:
            lvl = [A.scan(s("abc"), ("a(b)?", lvl), ("\\\\d+|\"", [A.let(v("q%d" % d), A.rcap(1))]), ("c", []))]
    files.append(A.file([A.stanza("(return_statement (_)? @o) @_r ", lvl), A.stanza("(identifier) @_id ", [])]))
    # 4: empty and minimal forms
    files.append(A.file([A.stanza("(pass_statement) @_p ", []), A.stanza("(pass_statement) @_p ", [A.prnt(i(1))])]))
    return files


def run(tier):
    V = C.Verdicts(PROP, tier)
    d = C.workdir("c07")
    C.ensure_built()
    # ---- pool of ASTs with integer location tags
    asts = []
    for k, f in enumerate(hand_asts()):
        asts.append({"id": "hand%d" % k, "prog": f})
    raw = os.path.join(d, "gen.ndjson")
    n = 16 if tier == "quick" else 300
    C.gen_cases(n, C.seed() * 1000 + 70, raw, "default")
    gen_cases = [c for c in C.read_ndjson(raw) if c["mode"] == "strict"]
    for c in gen_cases:
        asts.append({"id": c["id"], "prog": copy.deepcopy(c["prog"])})
    for a in asts:
        Tagger().file(a["prog"])
    apath = os.path.join(d, "asts.ndjson")
    C.write_ndjson(apath, [X.strip_nulls(a) for a in asts])
    pool = {"must": [" ", "\t", "\n", "   ", " ; cömment 中 \"{\n", "\n\n  "], "may": ["", " ", "\t", "\n", " ; é\n", "  "],
            "quote": "\"", "backslash": "\\", "nl": "\n", "tab": "\t", "cr": "\r"}
    ppath = os.path.join(d, "pool.json")
    with open(ppath, "w", encoding="utf-8") as f:
        json.dump(pool, f, ensure_ascii=False)
    cfg = "MCSyntax.cfg"
    if tier == "thorough":
        with open(os.path.join(C.SPEC, "MCSyntax.cfg")) as f:
            txt = f.read().replace("NRandom = 3", "NRandom = 25").replace("SinglePer = 1", "SinglePer = 3").replace("NSingle = 4", "NSingle = 12").replace("Stride = 3", "Stride = 1")
        with open(os.path.join(C.SPEC, "MCSyntaxT.cfg"), "w") as f:
            f.write(txt)
        cfg = "MCSyntaxT.cfg"
    recs, stats, _ = C.tlc("MCSyntax", cfg, {"ASTS": apath, "POOL": ppath}, "c07_mc", timeout=3400, mem="12g")
    if not C.tlc_ok(stats):
        raise C.ToolError("MCSyntax failed: %s" % stats["errors"][:3])
    texts = recs.get("TEXT", [])
    by_id = {a["id"]: a for a in asts}
    # RenderIsInjective (cross-behaviour condition on the model): one text never comes from two different ASTs
    seen = {}
    for t in texts:
        key = json.dumps(substitute(by_id[t["id"]]["prog"], {}), sort_keys=True) if False else t["id"]
        # two generated ASTs may render to one text (they then differ in rendering-only fields at most); the parser comparison
        # below judges each of them against that text anyway
        seen[t["text"]] = key
    # ends of input the layout pool cannot express: a comment that runs to the end of the text, no final line break, trailing
    # blanks (the AST and every location stay the same)
    extra = []
    for t in texts:
        if t["variant"][0] != "canonical":
            continue
        body = t["text"].rstrip("\n \t")
        for j, tail in enumerate(["", " ", "\n\n\t", " ; the end", "\n; é last comment, no line break", "\n;", " ;\n;"]):
            extra.append(dict(t, variant=["eof", j, 0], text=body + tail))
    # declarations as the very last thing of the text (no line break after them): `global NAME`, with a quantifier, with a default;
    # an `inherit` directive; expected AST = the original one plus the declaration
    tails = []
    for t in texts:
        if t["variant"][0] != "canonical":
            continue
        body = t["text"].rstrip("\n \t")
        row = body.count("\n") + 1
        for j, (decl, g) in enumerate([("global tail-g", {"name": "tail-g", "q": "one", "has_default": False, "default": ""}),
                                       ("global tail_q?", {"name": "tail_q", "q": "opt", "has_default": False, "default": ""}),
                                       ("global tail_l*", {"name": "tail_l", "q": "star", "has_default": False, "default": ""}),
                                       ("global tail_d = \"v\"", {"name": "tail_d", "q": "one", "has_default": True, "default": "v"}),
                                       ("global  tail_s", {"name": "tail_s", "q": "one", "has_default": False, "default": ""})]):
            col = 7 + (1 if decl.startswith("global  ") else 0)
            tails.append(dict(t, variant=["tail", j, 0], text=body + "\n" + decl, extra_global=dict(g, loc=[row, col])))
    texts = texts + extra + tails
    tin, tout = os.path.join(d, "texts.ndjson"), os.path.join(d, "parsed.ndjson")
    C.write_ndjson(tin, [{"id": t["id"], "variant": t["variant"], "text": t["text"]} for t in texts])
    p = subprocess.run([C.TSGV, "parse", tin, tout], stdout=subprocess.PIPE, stderr=subprocess.DEVNULL, text=True, timeout=3400)
    C.killed_from_outside(p.returncode)
    if p.returncode != 0:
        V.violation("parse-process", {"property": PROP, "detail": "the parsing process died with status %d" % p.returncode}, {"observed": "abort"})
        parsed = []
    else:
        parsed = C.read_ndjson(tout)
    stats2 = {"asts": len(asts), "texts_from_spec": len(texts), "single_gap_variants": sum(1 for t in texts if t["variant"][0] == "single"),
              "locations_compared": 0, "texts_from_harness_renderer": 0}
    for t, pr in zip(texts, parsed):
        pos = {x[0]: [x[1], x[2]] for x in t["locs"]}
        want = substitute(by_id[t["id"]]["prog"], pos)
        if t.get("extra_global"):
            want["globals"] = want["globals"] + [t["extra_global"]]
        stats2["locations_compared"] += len(pos)
        payload = {"property": PROP, "ast_id": t["id"], "variant": t["variant"], "dsl_text": t["text"], "expected_ast": want, "parser": pr["r"]}
        sig = {"observed": pr["r"]["status"], "msg": pr["r"].get("msg", ""), "text": t["text"]}
        if pr["r"]["status"] != "ok":
            payload["detail"] = "a syntactically valid text is not parsed: %s %s" % (pr["r"]["status"], pr["r"].get("msg", ""))
            V.violation("%s-%s" % (t["id"], "-".join(map(str, t["variant"]))), payload, sig)
            continue
        got = pr["r"]["ast"]
        want["inherit"] = sorted(want["inherit"])
        want["shorthands"] = sorted(want["shorthands"], key=lambda s: s["name"])
        if json.dumps(got, sort_keys=True) != json.dumps(want, sort_keys=True):
            payload["detail"] = "the parsed AST differs from the written program: " + first_difference(want, got)
            V.violation("%s-%s" % (t["id"], "-".join(map(str, t["variant"]))), payload, dict(sig, observed="ast-differs", diff=first_difference(want, got)))
    # ---- the other direction: harness renderer with random layouts (independent of TSGSyntax)
    rr = A.rng(7)
    r_cases = []
    for c in gen_cases:
        for k in range(2 if tier == "quick" else 6):
            cc = {"id": "%s~L%d" % (c["id"], k), "mode": "strict", "dbg": c["dbg"], "prog": copy.deepcopy(c["prog"]), "src": c["src"], "globals": c["globals"], "load_only": True}
            r_cases.append(cc)
    rin, rout = os.path.join(d, "rraw.ndjson"), os.path.join(d, "rtraces.ndjson")
    C.write_ndjson(rin, r_cases)
    C.run_cases(rin, rout, layout_seed=C.seed() * 7919 + 11)
    rdone = [c for c in C.read_ndjson(rout) if "text" in c]
    tin2, tout2 = os.path.join(d, "texts2.ndjson"), os.path.join(d, "parsed2.ndjson")
    C.write_ndjson(tin2, [{"id": c["id"], "variant": ["harness"], "text": c["text"]} for c in rdone])
    C.sh([C.TSGV, "parse", tin2, tout2], timeout=3000)
    for c, pr in zip(rdone, C.read_ndjson(tout2)):
        stats2["texts_from_harness_renderer"] += 1
        want = substitute(c["prog"], {})
        want["inherit"] = sorted(want["inherit"])
        want["shorthands"] = sorted(want["shorthands"], key=lambda s: s["name"])
        payload = {"property": PROP, "ast_id": c["id"], "variant": ["harness-random-layout"], "dsl_text": c["text"], "expected_ast": want, "parser": pr["r"]}
        if pr["r"]["status"] != "ok":
            payload["detail"] = "a syntactically valid text is not parsed: %s" % pr["r"].get("msg", "")
            V.violation(c["id"], payload, {"observed": pr["r"]["status"], "msg": pr["r"].get("msg", ""), "text": c["text"]})
        elif json.dumps(pr["r"]["ast"], sort_keys=True) != json.dumps(want, sort_keys=True):
            payload["detail"] = "the parsed AST differs from the written program: " + first_difference(want, pr["r"]["ast"])
            V.violation(c["id"], payload, {"observed": "ast-differs", "diff": first_difference(want, pr["r"]["ast"]), "text": c["text"]})
    cov = {"states": stats["distinct"], "transitions": stats["states"], "traces_validated_against_impl": len(parsed) + stats2["texts_from_harness_renderer"],
           "samples": [{"variant": texts[len(texts) // 2]["variant"], "text": texts[len(texts) // 2]["text"][:600]}] if texts else [],
           "evaluations": len(texts) + stats2["texts_from_harness_renderer"], "distinct_nontrivial": len(set(t["text"] for t in texts)), "rule": RULE, "syntax": stats2}
    return V.finish("model_checking", cov, ["query patterns are opaque to the DSL parser: only their capture names are compared",
                                            "characters outside the Basic Multilingual Plane are not used (TLC counts UTF-16 units)"])


def first_difference(a, b, path=""):
    if type(a) != type(b):
        return "%s: %s vs %s" % (path, json.dumps(a)[:80], json.dumps(b)[:80])
    if isinstance(a, dict):
        for k in sorted(set(a) | set(b)):
            if k not in a or k not in b:
                return "%s.%s: present on one side only" % (path, k)
            d = first_difference(a[k], b[k], path + "." + k)
            if d:
                return d
        return ""
    if isinstance(a, list):
        if len(a) != len(b):
            return "%s: %d vs %d elements" % (path, len(a), len(b))
        for i, (x, y) in enumerate(zip(a, b)):
            d = first_difference(x, y, "%s[%d]" % (path, i))
            if d:
                return d
        return ""
    return "" if a == b else "%s: %s vs %s" % (path, json.dumps(a)[:80], json.dumps(b)[:80])


def replay(path):
    with open(path, encoding="utf-8") as f:
        rp = json.load(f)
    C.ensure_built()
    d = C.workdir("c07_replay")
    tin, tout = os.path.join(d, "t.ndjson"), os.path.join(d, "p.ndjson")
    C.write_ndjson(tin, [{"id": "r", "variant": ["replay"], "text": rp["dsl_text"]}])
    C.sh([C.TSGV, "parse", tin, tout], timeout=60)
    pr = C.read_ndjson(tout)[0]["r"]
    bad = pr["status"] != "ok" or json.dumps(pr["ast"], sort_keys=True) != json.dumps(rp["expected_ast"], sort_keys=True)
    print(pr["status"], first_difference(rp["expected_ast"], pr.get("ast", {})) if pr["status"] == "ok" else pr.get("msg"))
    if bad:
        print("VIOLATION property=%s replay=%s" % (PROP, path))
        return 1
    return 0
