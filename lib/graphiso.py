"""Comparison of graphs up to renumbering of graph nodes (DESIGN Appendix G).

A graph is {"n": int, "nodes": [{"attrs": {name: value}, "out": [{"sink": j, "attrs": {...}}]}]};
values are interchange values ({"t": ...}).  Graph-node references inside attribute values are
renamed together with the nodes.
"""
import json


def from_spec(g):
    """graph as printed by TLC ([n, na, out]) -> common shape"""
    nodes = []
    for i in range(g["n"]):
        na = g["na"][i]
        if isinstance(na, list):  # empty function printed as []
            na = {}
        out = []
        for e in g["out"][i]:
            at = e["at"]
            if isinstance(at, list):
                at = {}
            out.append({"sink": e["sink"], "attrs": at})
        nodes.append({"attrs": na, "out": out})
    return {"n": g["n"], "nodes": nodes}


def canon_value(v, gmap):
    """hashable canonical form of a value; gmap maps graph-node index -> label (None: keep index)"""
    t = v["t"]
    if t == "null":
        return ("null",)
    if t == "bool":
        return ("bool", bool(v["b"]))
    if t == "int":
        return ("int", v["hi"] * 65536 + v["lo"])
    if t == "str":
        return ("str", v["s"])
    if t == "list":
        return ("list", tuple(canon_value(x, gmap) for x in v["l"]))
    if t == "set":
        return ("set", tuple(sorted((canon_value(x, gmap) for x in v["e"]), key=repr)))
    if t == "syn":
        return ("syn", v["n"])
    if t == "gn":
        g = v["g"]
        return ("gn", gmap(g) if gmap else g)
    return ("bad", json.dumps(v, sort_keys=True))


def canon_attrs(attrs, gmap):
    return tuple(sorted(((k, canon_value(v, gmap)) for k, v in attrs.items()), key=repr))


def exact_form(g, gmap=None, nmap=None):
    """full canonical description under a node renaming nmap (index -> new index)"""
    n = g["n"]
    ident = lambda i: i
    nm = nmap or ident
    gm = gmap or (lambda i: nm(i) if 0 <= i < n else ("dangling", i))
    rows = [None] * n
    for i, node in enumerate(g["nodes"]):
        edges = tuple(sorted(((nm(e["sink"]), canon_attrs(e["attrs"], gm)) for e in node["out"]), key=repr))
        rows[nm(i)] = (canon_attrs(node["attrs"], gm), edges)
    return tuple(rows)


def equal_exact(a, b):
    return a["n"] == b["n"] and exact_form(a) == exact_form(b)


def isomorphic(a, b, budget=20000):
    """True / False / None (undetermined within the budget)"""
    if a["n"] != b["n"]:
        return False
    n = a["n"]
    if n == 0:
        return True
    if equal_exact(a, b):
        return True
    # iterate refinement jointly: refine the disjoint union so colour names are shared
    union = {"n": 2 * n, "nodes": []}
    for node in a["nodes"]:
        union["nodes"].append(node)
    def shift_value(v):
        t = v["t"]
        if t == "gn":
            return {"t": "gn", "g": v["g"] + n}
        if t == "list":
            return {"t": "list", "l": [shift_value(x) for x in v["l"]]}
        if t == "set":
            return {"t": "set", "e": [shift_value(x) for x in v["e"]]}
        return v
    for node in b["nodes"]:
        union["nodes"].append({
            "attrs": {k: shift_value(v) for k, v in node["attrs"].items()},
            "out": [{"sink": e["sink"] + n, "attrs": {k: shift_value(v) for k, v in e["attrs"].items()}} for e in node["out"]],
        })
    col, _ = _colors_full(union)
    ca, cb = col[:n], col[n:]
    if sorted(ca) != sorted(cb):
        return False
    classes = {}
    for j, c in enumerate(cb):
        classes.setdefault(c, []).append(j)
    target = exact_form(b)
    order = sorted(range(n), key=lambda i: (len(classes[ca[i]]), i))
    assign = {}
    used = set()
    count = [0]

    def rec(k):
        if count[0] > budget:
            return None
        if k == n:
            count[0] += 1
            nm = lambda i: assign[i]
            return exact_form(a, nmap=nm) == target
        i = order[k]
        undet = False
        for j in classes[ca[i]]:
            if j in used:
                continue
            assign[i] = j
            used.add(j)
            r = rec(k + 1)
            used.discard(j)
            del assign[i]
            if r:
                return True
            if r is None:
                undet = True
                break
        return None if undet else False

    return rec(0)


def _mentions(v, path, out):
    """graph-node references inside a value, with the path at which they occur"""
    t = v["t"]
    if t == "gn":
        out.append((v["g"], path))
    elif t == "list":
        for i, x in enumerate(v["l"]):
            _mentions(x, path + "/%d" % i, out)
    elif t == "set":
        for x in v["e"]:
            _mentions(x, path + "/*", out)


def _colors_full(g):
    """colour refinement to a fixed point over four relations: outgoing edges, incoming edges, references from a
    node's (or its edges') attribute values, and - in the other direction - being referenced from them"""
    n = g["n"]
    star = lambda i: "*"
    init = []
    for node in g["nodes"]:
        init.append(repr((canon_attrs(node["attrs"], star),
                          tuple(sorted((canon_attrs(e["attrs"], star) for e in node["out"]), key=repr)))))
    ids = {x: k for k, x in enumerate(sorted(set(init)))}
    col = [ids[x] for x in init]
    incoming = [[] for _ in range(n)]
    referenced = [[] for _ in range(n)]      # z -> [(x, where)]: an attribute of x (or of an edge of x) mentions z
    for i, node in enumerate(g["nodes"]):
        for e in node["out"]:
            if 0 <= e["sink"] < n:
                incoming[e["sink"]].append((i, e))
        ms = []
        for k, v in node["attrs"].items():
            _mentions(v, "n:" + k, ms)
        for e in node["out"]:
            for k, v in e["attrs"].items():
                _mentions(v, "e:" + k, ms)
        for z, where in ms:
            if 0 <= z < n:
                referenced[z].append((i, where))
    sig = init
    for _ in range(n + 2):
        cm = lambda i: ("c", col[i]) if 0 <= i < n else ("dangling", i)
        sig = []
        for i, node in enumerate(g["nodes"]):
            outs = tuple(sorted(((cm(e["sink"]), canon_attrs(e["attrs"], cm)) for e in node["out"]), key=repr))
            ins = tuple(sorted(((cm(j), canon_attrs(e["attrs"], cm)) for (j, e) in incoming[i]), key=repr))
            refs = tuple(sorted(((col[x], where) for (x, where) in referenced[i]), key=repr))
            sig.append(repr((col[i], canon_attrs(node["attrs"], cm), outs, ins, refs)))
        ids = {x: k for k, x in enumerate(sorted(set(sig)))}
        newcol = [ids[x] for x in sig]
        if len(set(newcol)) == len(set(col)):
            col = newcol
            break
        col = newcol
    return col, sig


def strip_attrs(g, names):
    """copy of g without the node/edge attributes in `names`"""
    names = set(names)
    return {"n": g["n"], "nodes": [
        {"attrs": {k: v for k, v in node["attrs"].items() if k not in names},
         "out": [{"sink": e["sink"], "attrs": {k: v for k, v in e["attrs"].items() if k not in names}} for e in node["out"]]}
        for node in g["nodes"]]}


def size(g):
    ne = sum(len(x["out"]) for x in g["nodes"])
    na = sum(len(x["attrs"]) for x in g["nodes"]) + sum(len(e["attrs"]) for x in g["nodes"] for e in x["out"])
    return (g["n"], ne, na)
