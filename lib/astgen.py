"""Helpers to build interchange ASTs (DESIGN Appendix F) in Python, and access to the query pool."""
import json
import os
import random

import common as C


def query_pool():
    C.ensure_built()
    out = os.path.join(C.WORK, "queries.json")
    C.sh([C.TSGV, "queries", C.QUERIES, out], timeout=60)
    with open(out, encoding="utf-8") as f:
        return json.load(f)   # [{q, caps:[{name,q}]}]


def n_sources():
    """number of ordinary sources (the big ones, named *_many*, sort last and are only used by targeted cases)"""
    return len([f for f in os.listdir(C.CORPUS_PY) if f.endswith(".py") and "_many" not in f])


def big_source():
    names = source_names()
    return 1 + next(i for i, n in enumerate(names) if "_many" in n)


def wide_source():
    """a 300-statement source: more matches in progress at once than any plausible fixed limit of a query cursor"""
    names = source_names()
    return 1 + next(i for i, n in enumerate(names) if "_many_wide" in n)


def source_names():
    return sorted(f for f in os.listdir(C.CORPUS_PY) if f.endswith(".py"))


# ---- expressions
def null(): return {"k": "null"}
def true(): return {"k": "true"}
def false(): return {"k": "false"}
def integer(v): return {"k": "int", "hi": v // 65536, "lo": v % 65536}
def string(s): return {"k": "str", "v": s}
def lst(*es): return {"k": "list", "elems": list(es)}
def st(*es): return {"k": "set", "elems": list(es)}
def listc(elem, var, value): return {"k": "listc", "elem": elem, "var": {"name": var}, "value": value}
def setc(elem, var, value): return {"k": "setc", "elem": elem, "var": {"name": var}, "value": value}
def cap(name): return {"k": "cap", "name": name}
def var(name): return {"k": "var", "name": name}
def svar(scope, name): return {"k": "svar", "scope": scope, "name": name}
def call(fn, *args): return {"k": "call", "fn": fn, "args": list(args)}
def rcap(i): return {"k": "rcap", "i": i}


# ---- statements
def let(v, value): return {"k": "let", "var": v, "value": value}
def mut(v, value): return {"k": "var", "var": v, "value": value}
def assign(v, value): return {"k": "set", "var": v, "value": value}
def node(v): return {"k": "node", "var": v}
def edge(a, b): return {"k": "edge", "src": a, "dst": b}
def attr(name, value=None): return {"name": name, "value": value if value is not None else true(), **({"bare": True} if value is None else {})}
def attrn(n, *attrs): return {"k": "attrn", "node": n, "attrs": list(attrs)}
def attre(a, b, *attrs): return {"k": "attre", "src": a, "dst": b, "attrs": list(attrs)}
def prnt(*vals): return {"k": "print", "values": list(vals)}
def scan(value, *arms): return {"k": "scan", "value": value, "arms": [{"re": r, "stmts": s} for (r, s) in arms]}
def cond(kind, value): return {"k": kind, "value": value}
def iff(*arms): return {"k": "if", "arms": [{"conds": c, "stmts": s} for (c, s) in arms]}
def forin(v, value, stmts): return {"k": "for", "var": {"name": v}, "value": value, "stmts": stmts}


def stanza(qtext, stmts): return {"qtext": qtext, "stmts": stmts}


def glob(name, q="one", default=None):
    return {"name": name, "q": q, "has_default": default is not None, "default": default or ""}


def shorthand(name, v, attrs): return {"name": name, "var": {"name": v}, "attrs": attrs}


def file(stanzas, globals_=None, inherit=None, shorthands=None):
    return {"globals": globals_ or [], "inherit": inherit or [], "shorthands": shorthands or [], "stanzas": stanzas}


# ---- values
def vstr(s): return {"t": "str", "s": s}
def vint(v): return {"t": "int", "hi": v // 65536, "lo": v % 65536}
def vbool(b): return {"t": "bool", "b": b}
def vnull(): return {"t": "null"}
def vlist(*xs): return {"t": "list", "l": list(xs)}
def vgn(i): return {"t": "gn", "g": i}


DBG_OFF = {"on": False, "loc": "dbg_loc", "var": "dbg_var", "mat": "dbg_mat"}
DBG_ON = {"on": True, "loc": "dbg_loc", "var": "dbg_var", "mat": "dbg_mat"}


def case(cid, prog, src, mode="strict", globals_=None, dbg=None, cancel_at=0, **extra):
    c = {"id": cid, "mode": mode, "dbg": dbg or DBG_OFF, "prog": prog, "src": src, "globals": globals_ or {}, "cancel_at": cancel_at}
    c.update(extra)
    return c


def both_modes(cid, prog, src, **kw):
    return [case("%s-strict" % cid, json.loads(json.dumps(prog)), src, "strict", **kw),
            case("%s-lazy" % cid, json.loads(json.dumps(prog)), src, "lazy", **kw)]


def rng(salt=0):
    return random.Random(C.seed() * 1000003 + salt)
