"""Shared machinery of the /verif checks: building the harness against /repo's working tree,
running the harness and TLC, parsing TLC output, classifying outcomes, writing evidence."""
import json
import os
import re
import shutil
import subprocess
import sys
import time

VERIF = os.path.dirname(os.path.dirname(os.path.abspath(__file__)))
REPO = os.environ.get("VERIF_REPO", "/repo")
WORK = os.path.join(VERIF, "work")
SPEC = os.path.join(VERIF, "spec")
HARNESS = os.path.join(VERIF, "harness")
CORPUS_PY = os.path.join(VERIF, "corpus", "py")
QUERIES = os.path.join(VERIF, "corpus", "queries.json")
TSGV = os.path.join(WORK, "target", "debug", "tsgv")
EVIDENCE = os.environ.get("VERIF_EVIDENCE_DIR") or os.path.join(VERIF, "evidence")
KNOWN = os.path.join(VERIF, "KNOWN_FINDINGS.json")

TOOL_ERROR = 2


class ToolError(Exception):
    pass


def seed():
    try:
        return int(os.environ.get("VERIF_SEED", "0"))
    except ValueError:
        return 0


def workers():
    try:
        return int(os.environ.get("VERIF_WORKERS", "8"))
    except ValueError:
        return 8


def log(*a):
    print(*a, flush=True)


def sh(cmd, cwd=None, env=None, timeout=None, check=True, capture=True):
    e = dict(os.environ)
    if env:
        e.update(env)
    try:
        p = subprocess.run(cmd, cwd=cwd, env=e, timeout=timeout, stdout=subprocess.PIPE if capture else None,
                           stderr=subprocess.STDOUT if capture else None, text=True, errors="replace")
    except subprocess.TimeoutExpired as ex:
        raise ToolError("timeout: %s" % (cmd if isinstance(cmd, str) else " ".join(cmd))) from ex
    if check and p.returncode != 0:
        raise ToolError("command failed (%d): %s\n%s" % (p.returncode, cmd if isinstance(cmd, str) else " ".join(cmd),
                                                         (p.stdout or "")[-4000:]))
    return p


def killed_from_outside(rc):
    """SIGKILL is sent by the kernel's out-of-memory killer or an operator, never by the code under test (a panic, abort or stack
    overflow ends with SIGABRT / SIGSEGV / a status of its own): no verdict can be drawn from it"""
    if rc in (-9, 137):
        raise ToolError("a child process was killed from outside (status %d: out of memory or operator); no verdict" % rc)


_built = False


def ensure_built():
    """(Re)builds the harness against /repo's current working tree, hooks on."""
    global _built
    if _built:
        return
    os.makedirs(WORK, exist_ok=True)
    env = {"CARGO_NET_OFFLINE": "true"}
    p = sh(["cargo", "build", "--offline"], cwd=HARNESS, env=env, timeout=1200, check=False)
    if p.returncode != 0:
        raise ToolError("harness build failed:\n" + (p.stdout or "")[-6000:])
    _built = True


def workdir(name):
    d = os.path.join(WORK, name)
    os.makedirs(d, exist_ok=True)
    return d


def sources_json():
    ensure_built()
    path = os.path.join(WORK, "sources.json")
    sh([TSGV, "sources", CORPUS_PY, path], timeout=120)
    return path


def read_ndjson(path):
    out = []
    with open(path, encoding="utf-8") as f:
        for line in f:
            line = line.strip()
            if line:
                out.append(json.loads(line))
    return out


def write_ndjson(path, items):
    with open(path, "w", encoding="utf-8") as f:
        for it in items:
            f.write(json.dumps(it, ensure_ascii=False))
            f.write("\n")


def gen_cases(n, sd, out, profile="default"):
    ensure_built()
    sh([TSGV, "gen", CORPUS_PY, QUERIES, str(n), str(sd), out, profile], timeout=600)


def run_cases(inp, out, layout_seed=None, timeout=1800):
    """prepare + execute cases against the real library (child process; stderr discarded)"""
    ensure_built()
    cmd = [TSGV, "run", CORPUS_PY, inp, out]
    if layout_seed is not None:
        cmd.append(str(layout_seed))
    with open(os.devnull, "w") as devnull:
        try:
            p = subprocess.run(cmd, stdout=subprocess.PIPE, stderr=devnull, text=True, timeout=timeout)
        except subprocess.TimeoutExpired:
            return ("timeout", None)
    killed_from_outside(p.returncode)
    if p.returncode != 0:
        return ("crash", p.returncode)
    return ("ok", 0)


RESULT_RE = re.compile(r'^<<"([A-Z]+)", (".*")>>$')


def parse_tlc_output(text):
    """-> (records by tag, stats)"""
    recs = {}
    stats = {"states": 0, "distinct": 0, "depth": 0, "errors": [], "coverage": {}}
    for line in text.splitlines():
        m = RESULT_RE.match(line)
        if m:
            try:
                payload = json.loads(json.loads(m.group(2)))
            except Exception:
                stats["errors"].append("unparsable record: " + line[:200])
                continue
            recs.setdefault(m.group(1), []).append(payload)
            continue
        m = re.match(r"^(\d+) states generated, (\d+) distinct states found", line)
        if m:
            stats["states"] = int(m.group(1))
            stats["distinct"] = int(m.group(2))
        m = re.match(r"^The depth of the complete state graph search is (\d+)", line)
        if m:
            stats["depth"] = int(m.group(1))
        if line.startswith("Error:") or "is violated" in line or "Exception" in line:
            stats["errors"].append(line.strip()[:500])
        m = re.match(r"^<(\w+) line \d+, col \d+ to line \d+, col \d+ of module (\w+)>: (\d+):(\d+)", line)
        if m:
            stats["coverage"][m.group(1)] = {"distinct": int(m.group(3)), "taken": int(m.group(4))}
    return recs, stats


def _stream(cmd, env, timeout, sink):
    import threading
    full = dict(os.environ)
    full.update(env)
    files = {tag: open(path, "w", encoding="utf-8") for tag, path in sink.items()}
    counts = {tag: 0 for tag in sink}
    proc = subprocess.Popen(cmd, cwd=SPEC, env=full, stdout=subprocess.PIPE, stderr=subprocess.STDOUT, text=True, encoding="utf-8", errors="replace")
    timer = threading.Timer(timeout, proc.kill)
    timer.start()
    other = []
    try:
        for line in proc.stdout:
            line = line.rstrip("\n")
            m = RESULT_RE.match(line)
            if m and m.group(1) in files:
                try:
                    files[m.group(1)].write(json.loads(m.group(2)) + "\n")
                    counts[m.group(1)] += 1
                except Exception:
                    other.append("Error: unparsable record: " + line[:200])
            elif len(other) < 200000:
                other.append(line)
        rc = proc.wait()
    finally:
        timer.cancel()
        for f in files.values():
            f.close()
    return "\n".join(other), rc, counts


def tlc(module, cfg, env, name, timeout=3600, nworkers=None, extra=None, coverage=False, mem="4g", kill_after=None, sink=None):
    """runs TLC on spec/<module>.tla with spec/<cfg>; returns (records, stats, raw text).
    kill_after: seconds after which TLC is stopped on purpose (simulation mode); then exit status 124 is expected"""
    meta = os.path.join(WORK, "tlc", name)
    shutil.rmtree(meta, ignore_errors=True)
    os.makedirs(meta, exist_ok=True)
    e = {}
    e.update(env)
    # java is called directly (not through the `tlc` wrapper): -Xss must be on the command line, because the launcher sizes
    # the MAIN thread's stack from it and TLC computes initial states (and their invariants) on the main thread
    # (TLC unpacks its standard modules into a fresh directory under java.io.tmpdir at every start: keep that inside the run's own
    # scratch directory, which is removed below, instead of leaving thousands of directories under /tmp)
    cmd = ["java", "-Xss1g", "-Xmx" + mem, "-Dfile.encoding=UTF-8", "-Djava.io.tmpdir=" + meta, "-XX:+UseParallelGC",
           "-cp", "/opt/veriftools/tla/tla2tools.jar:/opt/veriftools/tla/CommunityModules-deps.jar", "tlc2.TLC",
           "-workers", str(nworkers or workers()), "-metadir", meta, "-cleanup", "-noGenerateSpecTE"]
    if coverage:
        cmd += ["-coverage", "1"]
    if extra:
        cmd += extra
    cmd += ["-config", cfg, module + ".tla"]
    if kill_after:
        cmd = ["timeout", str(int(kill_after))] + cmd
    t0 = time.time()
    if sink:
        # very large outputs: records of the given tags go straight to ndjson files (one JSON text per line), nothing is kept
        text, rc, counts = _stream(cmd, e, timeout, sink)
        recs, stats = parse_tlc_output(text)
        stats["sink_counts"] = counts

        class _P:
            returncode = rc
        p = _P()
    else:
        p = sh(cmd, cwd=SPEC, env=e, timeout=timeout, check=False)
        text = p.stdout or ""
        recs, stats = parse_tlc_output(text)
    stats["wall_s"] = round(time.time() - t0, 2)
    stats["exit"] = p.returncode
    if kill_after and p.returncode == 124 and not stats["errors"]:
        stats["exit"] = 0
        stats["stopped_on_purpose"] = True
        m = re.findall(r"Progress: (\d+) states checked, (\d+) traces generated", text)
        if m and not stats["distinct"]:
            stats["states"] = stats["distinct"] = int(m[-1][0])
        if not stats["distinct"]:
            # no progress line yet: count the states of the printed behaviours (one state per recorded operation)
            n = sum(len(r.get("hist", [])) + 1 for r in recs.get("REPLAY", []))
            stats["states"] = stats["distinct"] = n
    shutil.rmtree(meta, ignore_errors=True)
    with open(os.path.join(workdir("logs"), name + ".tlc.log"), "w", encoding="utf-8") as f:
        f.write(text)
    return recs, stats, text


def tlc_ok(stats):
    return stats["exit"] == 0 and not stats["errors"] and stats["distinct"] > 0


# ----------------------------------------------------------------------------- known findings
def load_known():
    if not os.path.exists(KNOWN):
        return []
    with open(KNOWN, encoding="utf-8") as f:
        return json.load(f).get("findings", [])


def match_known(prop, sig, known=None):
    """sig: dict describing the failing case; a finding matches when every key of its `match` agrees
    (values are regexes matched against str(sig[key]))."""
    for k in (known if known is not None else load_known()):
        if k.get("status") != "known":
            continue
        if prop not in k.get("properties", []):
            continue
        ok = True
        for key, pat in k.get("match", {}).items():
            if not re.search(pat, str(sig.get(key, ""))):
                ok = False
                break
        if ok:
            return k
    return None


# ----------------------------------------------------------------------------- evidence
def write_evidence(prop, tier, level, coverage, wall_s, violations, assumptions=None):
    os.makedirs(EVIDENCE, exist_ok=True)
    ev = {
        "property_id": prop,
        "tier": tier,
        "seed": seed(),
        "level": level,
        "coverage": coverage,
        "assumptions": assumptions or [],
        "wall_s": round(wall_s, 2),
        "violations": violations,
    }
    path = os.path.join(EVIDENCE, prop + ".json")
    tmp = path + ".tmp"
    with open(tmp, "w", encoding="utf-8") as f:
        json.dump(ev, f, indent=1, ensure_ascii=False)
    os.replace(tmp, path)
    return path


def write_replay(prop, name, payload):
    d = os.path.join(WORK, "replays", prop)
    os.makedirs(d, exist_ok=True)
    safe = re.sub(r"[^A-Za-z0-9_.-]", "_", name)[:80]
    path = os.path.join(d, safe + ".json")
    with open(path, "w", encoding="utf-8") as f:
        json.dump(payload, f, indent=1, ensure_ascii=False)
    return path


class Verdicts:
    """collects violations / known findings / drift of one check run and produces the exit status"""

    def __init__(self, prop, tier):
        self.prop = prop
        self.tier = tier
        self.violations = []
        self.known = {}
        self.drift = []
        self.unsupported = 0
        self.t0 = time.time()

    def violation(self, name, payload, sig=None):
        k = match_known(self.prop, sig or {})
        if k:
            self.known.setdefault(k["id"], {"what": k["what"], "count": 0, "example": name})
            self.known[k["id"]]["count"] += 1
            return
        path = write_replay(self.prop, name, payload)
        self.violations.append(path)

    def note_drift(self, name, detail):
        if len(self.drift) < 50:
            self.drift.append({"case": name, "detail": detail})

    def finish(self, level, coverage, assumptions=None):
        for kid, k in sorted(self.known.items()):
            log("KNOWN-FINDING: property=%s %s [%s] (%d case(s), e.g. %s)" % (self.prop, k["what"], kid, k["count"], k["example"]))
        for d in self.drift[:10]:
            log("DRIFT: property=%s case=%s %s" % (self.prop, d["case"], d["detail"]))
        coverage = dict(coverage)
        coverage["drift"] = self.drift[:20]
        coverage["drift_count"] = len(self.drift)
        coverage["known_findings_seen"] = {k: v["count"] for k, v in self.known.items()}
        coverage["unsupported_by_spec"] = self.unsupported
        write_evidence(self.prop, self.tier, level, coverage, time.time() - self.t0, len(self.violations), assumptions)
        for v in self.violations[:20]:
            log("VIOLATION property=%s replay=%s" % (self.prop, v))
        if self.violations:
            return 1
        log("OK property=%s tier=%s wall=%.1fs" % (self.prop, self.tier, time.time() - self.t0))
        return 0
