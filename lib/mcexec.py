"""Design-level model checking of the interpreters on TLC-enumerated programs (spec/MCExec.tla) and the cases that
replay those programs into the real library."""
import json
import os

import astgen as A
import common as C


def template():
    d = C.workdir("mcexec")
    # the bodies are replaced by TLC; the scan below only makes the harness prepare the regex tables the wide pool needs, the
    # shorthand is the one pool entry 25 uses
    tables = A.scan(A.call("source-text", A.cap("id")), ("^[a-f]", []), ("(x)|(y)", []))
    prog = A.file([A.stanza("(identifier) @id ", [A.let(A.var("u"), A.cap("id")), tables]), A.stanza("(identifier) @id ", [A.let(A.var("u"), A.cap("id"))])],
                  shorthands=[A.shorthand("sh", "p", [A.attr("sh1", A.var("p")), A.attr("sh2", A.lst(A.var("p"), A.var("p")))])])
    c = A.case("template", prog, 2, "strict")
    raw, out = os.path.join(d, "raw.ndjson"), os.path.join(d, "out.ndjson")
    C.write_ndjson(raw, [c])
    st, _ = C.run_cases(raw, out)
    if st != "ok":
        raise C.ToolError("cannot prepare the MCExec template")
    t = C.read_ndjson(out)[0]
    t["cap"] = "id"
    for k in ("events", "outcome", "text"):
        t.pop(k, None)
    path = os.path.join(d, "template.json")
    with open(path, "w", encoding="utf-8") as f:
        json.dump(t, f)
    return path, t


def run(tier, name, wide=False):
    """runs MCExec; returns (programs, tlc stats, template case).
    wide: the 26-entry pool (scoped values forced inside other calls, unused variables, var/set, comprehension, scan, shorthand,
    print) with bodies of at most 2 + 1 statements instead of the 12-entry core pool"""
    path, t = template()
    cfg = "MCExec.cfg"
    if wide:
        with open(os.path.join(C.SPEC, "MCExec.cfg")) as f:
            txt = f.read().replace("PoolN = 12", "PoolN = 26").replace("MaxLen2 = 2", "MaxLen2 = 1").replace("ClosedOnly = FALSE", "ClosedOnly = TRUE")
            if tier == "thorough":
                txt = txt.replace("MaxLen1 = 2", "MaxLen1 = 3")
        with open(os.path.join(C.SPEC, "MCExecWide.cfg"), "w") as f:
            f.write(txt)
        cfg = "MCExecWide.cfg"
    elif tier == "thorough":
        with open(os.path.join(C.SPEC, "MCExec.cfg")) as f:
            txt = f.read().replace("MaxLen1 = 2", "MaxLen1 = 3")
        with open(os.path.join(C.SPEC, "MCExec3.cfg"), "w") as f:
            f.write(txt)
        cfg = "MCExec3.cfg"
    recs, stats, _ = C.tlc("MCExec", cfg, {"TEMPLATE": path, "TREES": C.sources_json()}, name, timeout=3400, mem="12g")
    if not C.tlc_ok(stats):
        raise C.ToolError("MCExec failed (design-level: the machines violate a property on an enumerated program): %s" % stats["errors"][:3])
    return recs.get("PROG", []), stats, t


def strip_locs(x):
    if isinstance(x, dict):
        return {k: strip_locs(v) for k, v in x.items() if k != "loc"}
    if isinstance(x, list):
        return [strip_locs(v) for v in x]
    return x


def cases(programs, t, prefix, modes=("strict", "lazy"), swapped=False):
    out = []
    for k, p in enumerate(programs):
        prog = strip_locs(p["prog"])
        if swapped:
            prog = dict(prog, stanzas=[prog["stanzas"][1], prog["stanzas"][0]])
        for mode in modes:
            out.append(A.case("%s-%d%s-%s" % (prefix, k, "w" if swapped else "", mode), json.loads(json.dumps(prog)), t["src"], mode))
    return out
