"""The execution pipeline shared by the interpreter properties:
cases -> real library (hooks on) -> TLC trace validation against TSGExec -> property-level comparison."""
import json
import os

import common as C
import graphiso as G


def execute_and_validate(name, raw_path, layout_seed=None, nworkers=None, timeout=3600, cfg="TraceExec.cfg", run_timeout=1800):
    """runs the cases of raw_path through the real library and through TLC.
    returns (cases, results_by_id, stats)"""
    d = C.workdir(name)
    out = os.path.join(d, "traces.ndjson")
    st, code = C.run_cases(raw_path, out, layout_seed, timeout=run_timeout)
    if st != "ok":
        # a crash of the whole batch (abort / stack overflow / hang in the code under test): bisect
        return bisect_crash(name, raw_path, layout_seed, st)
    cases = C.read_ndjson(out)
    srcs = C.sources_json()
    results = {}
    stats = None
    for ci, chunk in enumerate(chunk_file(out, d)):
        cname = name if ci == 0 else "%s_c%d" % (name, ci)
        recs, st1, text = C.tlc("TraceExec", cfg, {"CASES": chunk, "TREES": srcs}, cname, timeout=timeout, nworkers=nworkers)
        if not C.tlc_ok(st1):
            raise C.ToolError("TLC failed on %s: exit=%s errors=%s (log: work/logs/%s.tlc.log)" % (cname, st1["exit"], st1["errors"][:3], cname))
        for r in recs.get("RESULT", []):
            results[r["id"]] = r
        if stats is None:
            stats = st1
        else:
            for key in ("distinct", "states", "wall_s"):
                stats[key] += st1[key]
            stats["depth"] = max(stats["depth"], st1["depth"])
    # the specification may ask for regex tables of subjects it computed itself (never taken from the
    # implementation); the oracle (regex crate) supplies them and those cases are validated again
    for rnd in range(3):
        reqs = {}
        for r in results.values():
            if r["status"] == "unsupported":
                ms = [m for m in r.get("missing", []) if m.get("re")]
                if ms:
                    reqs[r["id"]] = ms
        if not reqs:
            break
        rq = os.path.join(d, "retab_req_%d.json" % rnd)
        with open(rq, "w", encoding="utf-8") as f:
            json.dump(reqs, f, ensure_ascii=False)
        out2 = os.path.join(d, "traces_retab_%d.ndjson" % rnd)
        cur = out if rnd == 0 else os.path.join(d, "traces_retab_%d.ndjson" % (rnd - 1))
        C.sh([C.TSGV, "retab", cur, rq, out2], timeout=300)
        sub = C.read_ndjson(out2)
        if not sub:
            break
        recs2, stats2, _ = C.tlc("TraceExec", cfg, {"CASES": out2, "TREES": srcs}, name + "_r%d" % rnd, timeout=timeout, nworkers=nworkers)
        if not C.tlc_ok(stats2):
            raise C.ToolError("TLC failed on %s (retab round): %s" % (name, stats2["errors"][:3]))
        stats["distinct"] += stats2["distinct"]
        stats["states"] += stats2["states"]
        for r in recs2.get("RESULT", []):
            results[r["id"]] = r
    return cases, results, stats


CHUNK_BYTES = 12 * 1024 * 1024
CHUNK_CASES = 4000


def chunk_file(path, d):
    """TLC reads all cases of a run into memory: large batches are validated in pieces of about CHUNK_BYTES and at most
    CHUNK_CASES cases.  The second bound matters for soundness of the tooling: every case is one initial state, TLC keeps 8192
    queued states in memory and writes the rest to disk with ONE BYTE PER CHARACTER, so a state that holds text outside ASCII
    and goes through the disk queue comes back changed (seen as false alarms of C10 thorough before MCScan was changed)."""
    with open(path, encoding="utf-8") as f:
        nlines = sum(1 for _ in f)
    if os.path.getsize(path) <= CHUNK_BYTES * 3 // 2 and nlines <= CHUNK_CASES:
        return [path]
    out, cur, size, cnt = [], None, 0, 0
    with open(path, encoding="utf-8") as f:
        for line in f:
            cnt += 1
            if cur is None or size + len(line) > CHUNK_BYTES or cnt > CHUNK_CASES:
                cnt = 1
                if cur:
                    cur.close()
                out.append(os.path.join(d, "traces_chunk_%d.ndjson" % len(out)))
                cur = open(out[-1], "w", encoding="utf-8")
                size = 0
            cur.write(line)
            size += len(line)
    if cur:
        cur.close()
    return out


def bisect_crash(name, raw_path, layout_seed, st):
    """the batch died: find the single cases that kill the child process; the others are run normally"""
    items = C.read_ndjson(raw_path)
    d = C.workdir(name)
    good, bad = [], []

    def probe(sub, tag):
        p = os.path.join(d, "bisect_%s.ndjson" % tag)
        o = os.path.join(d, "bisect_%s.out.ndjson" % tag)
        C.write_ndjson(p, sub)
        s, _ = C.run_cases(p, o, layout_seed, timeout=15 + 0.5 * len(sub))
        return s == "ok"

    stack = [items]
    k = 0
    while stack:
        sub = stack.pop()
        k += 1
        if probe(sub, str(k)):
            good.extend(sub)
        elif len(sub) == 1:
            bad.append(sub[0])
        else:
            mid = len(sub) // 2
            stack.append(sub[:mid])
            stack.append(sub[mid:])
        if k > 400:
            raise C.ToolError("bisection of a crashing batch did not converge")
    p = os.path.join(d, "good.ndjson")
    C.write_ndjson(p, good)
    cases, results, stats = execute_and_validate(name + "_good", p, layout_seed) if good else ([], {}, {"states": 0, "distinct": 0, "depth": 0, "errors": [], "coverage": {}, "wall_s": 0, "exit": 0})
    for b in bad:
        b["outcome"] = {"status": "abort", "how": st}
        b["events"] = []
        cases.append(b)
    return cases, results, stats


def classify(case, res):
    """property-level comparison of one executed case with the specification's expectation.
    returns dict: verdict in {agree, unsupported, skip, violation}, detail, drift (or None)"""
    if "skip" in case:
        return {"verdict": "skip", "detail": case["skip"], "drift": None}
    o = case.get("outcome")
    if o is None:
        return {"verdict": "skip", "detail": "not executed", "drift": None}
    st = o["status"]
    if st in ("abort", "panic", "load_panic"):
        return {"verdict": "violation", "detail": "the library %s: %s" % (st, o.get("msg", o.get("how", ""))), "drift": None,
                "sig": {"observed": st, "msg": o.get("msg", "")}}
    if st == "load_err":
        return {"verdict": "skip", "detail": "rejected by the loader: " + o["err"]["display"][:200], "drift": None, "load_err": True}
    if res is None:
        return {"verdict": "skip", "detail": "no expectation from the specification", "drift": None}
    exp = res["status"]
    # invariants of the state observed through the hooks (built from the recorded events alone)
    ob = res.get("obs")
    if ob and not o.get("truncated"):
        bad = []
        if not ob["dense"]:
            bad.append("graph nodes are not numbered densely in creation order")
        if not ob["newok"]:
            bad.append("an edge statement reported new/existing inconsistently with the edges created so far")
        if ob["dangling"]:
            bad.append("an edge or attribute refers to a node or edge that does not exist")
        if ob["conflict"] and st == "ok":
            bad.append("an attribute was assigned two different values and execution succeeded")
        if bad:
            return {"verdict": "violation", "detail": "observed-state invariant: " + "; ".join(bad), "drift": None,
                    "sig": {"observed": st, "obs": ";".join(bad)}}
    if exp == "unsupported":
        return {"verdict": "unsupported", "detail": "", "drift": None}
    drift = None
    if not o.get("truncated") and (res["drift"] != 0 or res["matched"] != res["recorded"]):
        drift = "event %d of %d: machine and trace disagree (machine emitted %d)" % (
            res["drift"] if res["drift"] else min(res["matched"], res["recorded"]) + 1, res["recorded"], res["matched"])
    if exp == "ok":
        if st != "ok":
            return {"verdict": "violation", "detail": "specification: success; library: %s %s" % (st, json.dumps(o.get("err", {}))[:300]),
                    "drift": drift, "sig": {"observed": st, "expected": "ok", "kind": o.get("err", {}).get("kind", "")}}
        ge = G.from_spec(res["g"])
        iso = G.isomorphic(ge, o["graph"])
        if iso is None:
            return {"verdict": "skip", "detail": "isomorphism undetermined within budget", "drift": drift}
        if not iso:
            return {"verdict": "violation", "detail": "graphs differ (not isomorphic)", "drift": drift,
                    "sig": {"observed": "ok", "expected": "ok", "diff": "graph"}, "expected_graph": ge}
        if not G.equal_exact(ge, o["graph"]) and drift is None:
            drift = "graphs isomorphic but numbered differently"
        return {"verdict": "agree", "detail": "ok", "drift": drift}
    if exp == "err":
        if st == "err":
            if o["err"]["kind"] != res["kind"] and drift is None:
                drift = "error variant %s, specification %s" % (o["err"]["kind"], res["kind"])
            if drift is None:
                shape = lambda ch: [(x["ck"], [(s_["sl"], s_["st"], s_["nk"], s_["np"]) for s_ in x.get("stmts", [])]) for x in ch]
                if shape(o["err"]["chain"]) != shape(res["chain"]):
                    drift = "context chain differs from the machine's"
            return {"verdict": "agree", "detail": "err", "drift": drift}
        return {"verdict": "violation", "detail": "specification: error %s; library: %s" % (res["kind"], st), "drift": drift,
                "sig": {"observed": st, "expected": "err", "kind": res["kind"]}}
    if exp == "cancelled":
        if st == "cancelled":
            return {"verdict": "agree", "detail": "cancelled", "drift": drift}
        return {"verdict": "violation", "detail": "specification: cancelled; library: %s" % st, "drift": drift,
                "sig": {"observed": st, "expected": "cancelled"}}
    return {"verdict": "skip", "detail": "unexpected specification status " + str(exp), "drift": drift}


def replay_payload(prop, case, res, cl):
    return {
        "property": prop,
        "case_id": case.get("id"),
        "mode": case.get("mode"),
        "dbg": case.get("dbg"),
        "dsl_text": case.get("text"),
        "source": case.get("src"),
        "globals": case.get("globals"),
        "cancel_at": case.get("cancel_at"),
        "detail": cl.get("detail"),
        "expected": {k: res[k] for k in ("status", "kind", "chain", "g")} if res else None,
        "observed": case.get("outcome"),
        "case": {k: case[k] for k in case if k not in ("events", "retab", "matches", "lorder", "outcome")},
    }


def sample_of(case):
    return {"id": case.get("id"), "mode": case.get("mode"), "source": case.get("src"),
            "dsl_text": case.get("text"), "status": case.get("outcome", {}).get("status")}


def nontrivial(case):
    """a case is non-trivial when at least one stanza matched and at least one statement ran"""
    ev = case.get("events") or []
    return any(e.get("e") == "stmt" for e in ev)


def tolerate_hash_order(case, res, cl):
    """the order in which lazy mode forces the names of the scoped store at the end is not part of any property
    (the library sorts them since the F12 fix, and the machine follows that); a mechanism-level disagreement after
    the `sforceall` event is still not reported as drift."""
    if not cl.get("drift") or not res or not res.get("drift"):
        return cl
    ev = case.get("events") or []
    idx = next((i for i, e in enumerate(ev) if e.get("e") == "sforceall"), None)
    if idx is not None and res["drift"] > idx + 1:
        cl = dict(cl)
        cl["drift"] = None
        cl["hash_order"] = True
    return cl


def strip_nulls(x):
    if isinstance(x, dict):
        return {k: strip_nulls(v) for k, v in x.items() if v is not None}
    if isinstance(x, list):
        return [strip_nulls(v) for v in x if v is not None]
    return x


class ExecRun:
    """accumulates batches of executed+validated cases for one property check"""

    def __init__(self, prop, tier):
        self.prop = prop
        self.tier = tier
        self.V = C.Verdicts(prop, tier)
        self.cases = []
        self.results = {}
        self.states = 0
        self.trans = 0
        self.classified = []
        self.counts = {"agree_ok": 0, "agree_err": 0, "agree_cancelled": 0, "skip": 0, "unsupported": 0, "load_err": 0, "violation": 0}

    def add_batch(self, name, raw, layout_seed=None, run_timeout=1800):
        cases, results, stats = execute_and_validate(name, raw, layout_seed, run_timeout=run_timeout)
        self.cases += cases
        self.results.update(results)
        self.states += stats["distinct"]
        self.trans += stats["states"]
        return cases, results

    def add_cases(self, name, items, layout_seed=None, run_timeout=1800):
        items = [strip_nulls(x) for x in items]     # TLC's Json module cannot read null
        d = C.workdir(name)
        raw = os.path.join(d, "raw.ndjson")
        C.write_ndjson(raw, items)
        return self.add_batch(name, raw, layout_seed, run_timeout)

    def classify_all(self, report=True, panic_only=False):
        """compares every case with its own machine; reports violations (optionally only crashes)"""
        out = []
        for case in self.cases:
            res = self.results.get(case.get("id"))
            cl = tolerate_hash_order(case, res, classify(case, res))
            v = cl["verdict"]
            if v == "violation":
                self.counts["violation"] += 1
                crash = case.get("outcome", {}).get("status") in ("panic", "abort", "load_panic")
                if report and (crash or not panic_only):
                    self.V.violation(case["id"], replay_payload(self.prop, case, res, cl), cl.get("sig"))
            elif v == "unsupported":
                self.V.unsupported += 1
                self.counts["unsupported"] += 1
            elif v == "skip":
                self.counts["skip"] += 1
                if cl.get("load_err"):
                    self.counts["load_err"] += 1
            else:
                key = "agree_" + cl["detail"]
                self.counts[key] = self.counts.get(key, 0) + 1
            if cl.get("drift"):
                self.V.note_drift(case["id"], cl["drift"])
            out.append((case, res, cl))
        self.classified = out
        return out

    def coverage(self, rule, extra=None):
        validated = sum(1 for c in self.cases if self.results.get(c.get("id")) is not None)
        distinct = set()
        samples = []
        for c in self.cases:
            if self.results.get(c.get("id")) is not None and nontrivial(c):
                distinct.add((c.get("text"), c.get("src"), c.get("mode"), json.dumps(c.get("globals"), sort_keys=True),
                              c.get("cancel_at"), json.dumps(c.get("dbg"), sort_keys=True)))
                if len(samples) < 3:
                    samples.append(sample_of(c))
        actions = {}
        for r in self.results.values():
            t = r.get("taken")
            if isinstance(t, dict):
                for k, v in t.items():
                    actions[k] = actions.get(k, 0) + v
        cov = {
            "actions_taken": actions, "actions_never_taken": sorted(k for k, v in actions.items() if v == 0),
            "states": max(self.states, 0), "transitions": max(self.trans, 0),
            "traces_validated_against_impl": validated,
            "samples": samples or [sample_of(c) for c in self.cases[:1]] or [{"note": "no case"}],
            "evaluations": len(self.cases), "distinct_nontrivial": len(distinct),
            "rule": rule, "outcomes": self.counts, "exhaustive": False,
        }
        if extra:
            cov.update(extra)
        return cov


TRUSTED = [
    "tree-sitter query matching, the python grammar and the regex crate are trusted (their results are inputs of the specification)",
    "graphs are compared up to renumbering of graph nodes",
]


def replay_generic(prop, path, judge=None):
    """re-runs the recorded case(s) of a replay file against the current /repo tree"""
    with open(path, encoding="utf-8") as f:
        rp = json.load(f)
    items = rp.get("cases") or [rp["case"]]
    run = ExecRun(prop, "quick")
    run.add_cases(prop.lower() + "_replay", items)
    rc = 0
    for case, res, cl in run.classify_all(report=False):
        print(case.get("id"), cl["verdict"], cl["detail"])
        if cl["verdict"] == "violation":
            rc = 1
    if judge:
        rc = max(rc, judge(run))
    if rc:
        print("VIOLATION property=%s replay=%s" % (prop, path))
    return rc
