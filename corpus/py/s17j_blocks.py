def f():
  a
  b
def g():
  c
