class A:
    def m(self):
        pass
    x = 1
