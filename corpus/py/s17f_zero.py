x[ ] = 1
while :
    pass
if x:
    # only a comment
y = 2
