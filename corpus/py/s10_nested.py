def g():
    def h():
        return h
    return g
