def f(:
    pass
z = 3 3
