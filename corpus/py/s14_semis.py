x = 1; y = 2; x = y
