with a as b:
    pass
try:
    pass
except E as e:
    pass
print = 1
match = 2
type = 3
exec = 4
