é = "中文"
print(é)
