# leading comment
x = 1  # trailing comment
# between statements
def f(a):
    # first in block
    return a  # after return
# last
