a.b.c(d)(e)
