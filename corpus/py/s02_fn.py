def f(a, b):
    return a + b

f(1, 2)
