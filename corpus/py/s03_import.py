import os
from a.b import c
