for i in xs:
    print(i)
    print(i, i)
