foo(bar, baz=1, *qs)
lambda q: q
