x = 1
y = x
