d = {a: 1, b: 2, c: 3}
x = a + b
f(p, q, r)
e = {}
