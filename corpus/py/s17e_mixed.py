f(a,  # first
  b)  # second
x = [1,  # one
     2]
é = "中"  # é
