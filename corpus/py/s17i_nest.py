a + b + c
x.y.z
f()()
q[0][1]
