pass
