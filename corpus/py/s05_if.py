if x:
    y = 1
elif z:
    y = 2
else:
    y = 3
