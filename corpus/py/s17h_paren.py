(x)
def f():# c
