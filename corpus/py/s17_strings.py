x = "a/b/c"
y = "héllo wörld"
