x
